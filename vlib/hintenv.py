"""Names that generated hint source expressions may refer to (Python 3.12).

A *real* module (not an exec'd dict) so that classes have a proper __module__
and string annotations naming them resolve.  Every hint node's `src` is an
expression over this namespace; `eval(src, ENV)` builds the hint object.
"""
import collections
import collections.abc
import enum
import typing
from collections import ChainMap, Counter, OrderedDict, defaultdict, deque
from collections.abc import (
    AsyncGenerator, AsyncIterator, Awaitable, Callable, Collection, Container, Coroutine, Generator,
    Hashable, ItemsView, Iterable, Iterator, KeysView, Mapping, MutableMapping,
    MutableSequence, MutableSet, Reversible, Sequence, Sized, ValuesView,
)
from collections.abc import Set as AbstractSet
from typing import (
    Annotated, Any, Dict, FrozenSet, Generic, List, Literal, NewType, Optional,
    Protocol, Set, Tuple, Type, TypeVar, Union, runtime_checkable,
)


# ---- a small user class lattice -------------------------------------------
class A:
    def __repr__(self): return f'{type(self).__name__}()'


class B(A):
    pass


class C(B):
    pass


class D:
    def __repr__(self): return 'D()'


class Col(enum.Enum):
    RED = 1
    GREEN = 2
    BLUE = 'b'


class IntSub(int):
    pass


class StrSub(str):
    pass


class ListSub(list):
    pass


class DictSub(dict):
    pass


class TupleSub(tuple):
    pass


class SetSub(set):
    pass


# ---- protocols --------------------------------------------------------------
@runtime_checkable
class HasFoo(Protocol):
    def foo(self) -> int: ...


@runtime_checkable
class HasLenAndFoo(Protocol):
    def foo(self) -> int: ...
    def __len__(self) -> int: ...


class WithFoo:
    def foo(self) -> int: return 1
    def __repr__(self): return 'WithFoo()'


class WithFooLen:
    def foo(self) -> int: return 1
    def __len__(self) -> int: return 0
    def __repr__(self): return 'WithFooLen()'


# ---- type variables, new types ---------------------------------------------
T = TypeVar('T')
TB = TypeVar('TB', bound=A)
TC = TypeVar('TC', int, str)
TBU = TypeVar('TBU', bound=Union[int, A])
NTInt = NewType('NTInt', int)
NTA = NewType('NTA', A)
NTListInt = NewType('NTListInt', list[int])
NTNT = NewType('NTNT', NTInt)


# ---- user generics ----------------------------------------------------------
class G(Generic[T]):
    def __init__(self, v=None): self.v = v
    def __repr__(self): return f'{type(self).__name__}({self.v!r})'


class GSub(G[int]):
    pass


class L(list[T]):
    pass


class M(dict[str, T]):
    pass


class LInt(L[int]):
    pass


# generics with two parameters, nested in each other over a shared TypeVar, and
# derived over bounded TypeVars that stay unsubscripted
U = TypeVar('U')
TInt = TypeVar('TInt', bound=int)
TStr = TypeVar('TStr', bound=str)


class Bag(list[T]):
    pass


class Table(dict[T, U]):
    pass


class PairL(Generic[T, U], list[U]):
    pass


class Scores(Table[TInt, TStr]):
    pass


# several bases: a constraining builtin generic first, then another user-defined generic (mixin)
class Tagged(Generic[T]):
    pass


class IntsT(list[int], Tagged[str]):
    pass


class TableT(dict[str, int], Tagged[int]):
    pass


class TaggedInts(Tagged[str], list[int]):
    pass


# pseudo-superclasses that constrain *classes* by the type variable ("registry of plugin classes")
class ClassList(list[type[T]]):
    pass


class ClassRegistry(dict[str, type[T]]):
    pass


# a TypeVar bounded by a runtime-checkable protocol that has a data member (issubclass() refuses such protocols)
@runtime_checkable
class HasName(Protocol):
    name: str


class Person:
    name = 'p'
    def __repr__(self): return 'Person()'


TN = TypeVar('TN', bound=HasName)


class Badge(Generic[TN]):
    def __init__(self, v=None): self.v = v
    def __repr__(self): return f'Badge({self.v!r})'


class BadgeList(list[TN]):
    pass


class GenSeq(Sequence[T]):
    """Pure-Python generic sequence."""
    def __init__(self, items=()): self._items = list(items)
    def __len__(self): return len(self._items)
    def __getitem__(self, i): return self._items[i]
    def __repr__(self): return f'GenSeq({self._items!r})'


# ---- further standard-library hints whose runtime meaning is "instance of one class / protocol" ------------
import contextlib as _contextlib
import os as _os
import pathlib as _pathlib
import re as _re
from collections.abc import MappingView
from typing import ForwardRef, SupportsAbs, SupportsIndex, SupportsInt, Unpack
RePatternStr = _re.Pattern[str]
ReMatchStr = _re.Match[str]
PathLikeStr = _os.PathLike[str]
CtxMgrInt = _contextlib.AbstractContextManager[int]


class RealBox:
    """Object whose attribute 'real' may again be a RealBox (chains for nested IsAttr validators)."""
    def __init__(self, real): self.real = real
    def __repr__(self): return f'RealBox({self.real!r})'


class WithCtx:
    def __enter__(self): return 1
    def __exit__(self, *a): return None
    def __repr__(self): return 'WithCtx()'


# ---- PEP 695 aliases ---------------------------------------------------------
type AliasInt = int
type AliasListInt = list[int]
type AliasUnion = int | str
type AliasOptA = A | None
# recursive aliases: plain and parametrised
type RecJson = list[RecJson] | int
type RecList[T] = list[RecList[T] | T]


# ---- validator predicates (total: never raise) -----------------------------
def pred_truthy(x):
    try:
        return bool(x)
    except Exception:
        return False


def pred_sized_lt3(x):
    try:
        return len(x) < 3
    except Exception:
        return False


def pred_even(x):
    return type(x) is int and x % 2 == 0


def pred_not_none(x):
    return x is not None


def pred_true(x):
    return True


PREDS = {
    'pred_truthy': pred_truthy, 'pred_sized_lt3': pred_sized_lt3,
    'pred_even': pred_even, 'pred_not_none': pred_not_none,
    'pred_true': pred_true,
}


def _late_imports():
    # beartype.vale is imported lazily so that the draw controller can be
    # installed before beartype is first imported.
    g = globals()
    if 'Is' not in g:
        from beartype.vale import Is, IsAttr, IsEqual, IsInstance, IsSubclass
        g.update(Is=Is, IsAttr=IsAttr, IsEqual=IsEqual, IsInstance=IsInstance,
                 IsSubclass=IsSubclass)


def env():
    _late_imports()
    return globals()

"""Controlled cooperative scheduler on sys.monitoring LINE events (DESIGN §3.5).

Exactly one managed thread runs at a time (baton = per-thread semaphore).  At
every LINE event of a code object whose file lies under the repository's
beartype/ directory (or in beartype-generated code) the running thread reaches a
yield point, where the seeded scheduler may hand the baton to another thread.
beartype's own locks are replaced by shims whose contended acquire is a yield
point instead of a blocking call, so that a paused lock holder can never hang
the scheduler and a cycle of waiting threads is a logically decided deadlock.
"""
from __future__ import annotations

import hashlib
import random
import sys
import threading
import time

TOOL_ID = 4
_LOCK_TYPES = (type(threading.Lock()), type(threading.RLock()))


class Deadlock(Exception):
    pass


class ShimLock:
    """Scheduler-aware stand-in for a threading.Lock / RLock."""

    def __init__(self, real, name):
        self.real, self.name = real, name
        self.acquisitions = 0
        self.contended = 0

    def _took(self):
        # ownership bookkeeping for lockset monitors (re-entrant locks are counted)
        me = threading.get_ident()
        if getattr(self, 'owner', None) == me:
            self.depth += 1
        else:
            self.owner, self.depth = me, 1

    def held_by_me(self):
        return getattr(self, 'owner', None) == threading.get_ident() and self.depth > 0

    def acquire(self, blocking=True, timeout=-1):
        s = CURRENT
        if s is None or not s.managed():
            ok = self.real.acquire(blocking, timeout)
            if ok:
                self._took()
            return ok
        spins = 0
        while True:
            if self.real.acquire(False):
                self.acquisitions += 1
                self._took()
                s.progress()
                return True
            if not blocking:
                return False
            self.contended += 1
            spins += 1
            s.blocked_yield(self.name, spins)

    def release(self):
        if getattr(self, 'owner', None) == threading.get_ident():
            self.depth -= 1
            if self.depth <= 0:
                self.owner = None
        self.real.release()
        s = CURRENT
        if s is not None and s.managed():
            s.progress()

    def __enter__(self):
        self.acquire()
        return self

    def __exit__(self, *exc):
        self.release()
        return False

    def locked(self):
        return self.real.locked() if hasattr(self.real, 'locked') else False


CURRENT = None          # the scheduler of the schedule being run (one at a time per process)
SHIMS: dict = {}


def install_lock_shims(module_prefix='beartype'):
    """Replace every Lock/RLock found in the globals of beartype modules, and in
    attributes/slots of objects held by those globals, by one shim per lock."""
    n = 0
    for mname, mod in list(sys.modules.items()):
        if mod is None or not (mname == module_prefix or mname.startswith(module_prefix + '.')):
            continue
        for k, v in list(vars(mod).items()):
            if isinstance(v, _LOCK_TYPES):
                SHIMS.setdefault(id(v), ShimLock(v, f'{mname}.{k}'))
                setattr(mod, k, SHIMS[id(v)])
                n += 1
            elif isinstance(v, ShimLock):
                continue
            else:
                # one level into instances of beartype classes (pools, LRU caches)
                t = type(v)
                if getattr(t, '__module__', '').startswith(module_prefix) and not isinstance(v, type):
                    names = list(getattr(v, '__dict__', {}).keys())
                    for c in t.__mro__:
                        names += list(getattr(c, '__slots__', ()))
                    for a in names:
                        try:
                            lv = getattr(v, a)
                        except Exception:
                            continue
                        if isinstance(lv, _LOCK_TYPES):
                            SHIMS.setdefault(id(lv), ShimLock(lv, f'{mname}.{k}.{a}'))
                            try:
                                setattr(v, a, SHIMS[id(lv)])
                                n += 1
                            except Exception:
                                pass
    return n


class Scheduler:
    def __init__(self, seed, switch_prob=0.12, repo_marker='/beartype/', max_steps=400000, stall_s=8.0, change_points=None,
                 event_prob=0.0):
        self.rng = random.Random(seed)
        self.p = switch_prob
        self.marker = repo_marker
        self.max_steps = max_steps
        self.stall_s = stall_s
        self.change_points = change_points      # PCT-like: switch only at these step numbers (set) if given
        self.sem = {}
        self.state = {}          # tid -> 'ready' | 'running' | 'done'
        self.order = []
        self.trace = []
        self.steps = 0
        self.no_progress = 0
        self.deadlock = None
        self.free_running = False
        self.results = {}
        self.errors = {}
        self.files = {}
        self.idents = {}
        self.mutex = threading.Lock()
        self.event_prob = event_prob     # probability of a switch at a monitor-reported event (event_point)
        self.burst = 0                   # yield points the current thread still runs uninterrupted
        self.events_seen = 0
        self.event_switches = 0

    # -- queried by shims -----------------------------------------------------------
    def managed(self):
        return threading.get_ident() in self.idents and not self.free_running

    def progress(self):
        self.no_progress = 0

    # -- baton ----------------------------------------------------------------------
    def _others(self, me):
        return [t for t in self.order if t != me and self.state[t] != 'done']

    def _handover(self, me, to, why, where):
        self.trace.append((me, to, why, where))
        self.state[me] = 'ready' if self.state[me] != 'done' else 'done'
        self.state[to] = 'running'
        self.sem[to].release()
        if self.state[me] != 'done':
            if not self.sem[me].acquire(timeout=self.stall_s * 4):
                self._degrade('baton never came back')

    def _degrade(self, why):
        if not self.free_running:
            self.free_running = True
            self.trace.append(('degraded', why))
            for s in self.sem.values():
                for _ in range(8):
                    s.release()

    def yield_point(self, where):
        if self.free_running:
            return
        me = self.idents[threading.get_ident()]
        self.steps += 1
        self.no_progress = 0
        if self.steps > self.max_steps:
            self._degrade('step budget exhausted')
            return
        if self.burst > 0:
            # a thread switched to at an event point keeps the baton for a while (see event_point)
            self.burst -= 1
            return
        if self.change_points is not None:
            switch = self.steps in self.change_points
        else:
            switch = self.rng.random() < self.p
        if switch:
            others = self._others(me)
            if others:
                self._handover(me, self.rng.choice(others), 'yield', where)

    def event_point(self, where):
        """Called by a monitor at a semantically interesting moment of the running thread (a pooled object was just
        released or acquired, ...).  With probability event_prob the baton goes to another thread, which then runs
        uninterrupted for a random burst of yield points: the adversarial schedule for state whose ownership just
        changed hands (the other thread gets to finish whole operations inside the window)."""
        if self.free_running or not self.event_prob or threading.get_ident() not in self.idents:
            return
        me = self.idents[threading.get_ident()]
        self.events_seen += 1
        if self.burst > 0 or self.rng.random() >= self.event_prob:
            return
        others = self._others(me)
        if others:
            self.event_switches += 1
            self.burst = self.rng.choice((300, 3000, 30000, 10 ** 6))
            self._handover(me, self.rng.choice(others), 'event', where)

    def blocked_yield(self, lockname, spins):
        if self.free_running:
            time.sleep(0.0005)
            return
        me = self.idents[threading.get_ident()]
        self.no_progress += 1
        self.burst = 0
        others = self._others(me)
        if not others or self.no_progress > 6 * (len(self.order) + 1):
            self.deadlock = f'thread {me} waits for {lockname}; no thread made progress for {self.no_progress} hand-overs'
            self._degrade('deadlock')
            raise Deadlock(self.deadlock)
        self._handover(me, self.rng.choice(others), 'blocked:' + lockname, lockname)

    # -- monitoring -------------------------------------------------------------------
    def _on_line(self, code, line):
        fn = code.co_filename
        ok = self.files.get(fn)
        if ok is None:
            ok = self.files[fn] = (self.marker in fn and 'beartype_test' not in fn) or fn.startswith('<@beartype')
        if not ok:
            return sys.monitoring.DISABLE
        if threading.get_ident() in self.idents and not self.free_running:
            self.yield_point((fn.rsplit('/', 1)[-1], line))
        return None

    def run(self, fns):
        """Run the callables as threads under this schedule."""
        global CURRENT
        CURRENT = self
        n = len(fns)
        threads = []
        for i, fn in enumerate(fns):
            self.sem[i] = threading.Semaphore(0)
            self.state[i] = 'ready'
            self.order.append(i)

            def body(i=i, fn=fn):
                self.idents[threading.get_ident()] = i
                self.sem[i].acquire()
                try:
                    self.results[i] = fn()
                except BaseException as e:   # noqa
                    self.errors[i] = e
                finally:
                    self.state[i] = 'done'
                    self.burst = 0
                    self.idents.pop(threading.get_ident(), None)
                    if not self.free_running:
                        others = self._others(i)
                        if others:
                            self.trace.append((i, 'finished'))
                            nxt = self.rng.choice(others)
                            self.state[nxt] = 'running'
                            self.sem[nxt].release()
            threads.append(threading.Thread(target=body, daemon=True))
        mon = sys.monitoring
        try:
            mon.use_tool_id(TOOL_ID, 'verif-sched')
        except ValueError:
            pass
        mon.register_callback(TOOL_ID, mon.events.LINE, self._on_line)
        mon.set_events(TOOL_ID, mon.events.LINE)     # (locations outside beartype stay DISABLEd across schedules)
        for t in threads:
            t.start()
        first = self.rng.choice(self.order)
        self.state[first] = 'running'
        self.sem[first].release()
        deadline = time.time() + self.stall_s * 6
        for t in threads:
            t.join(max(0.1, deadline - time.time()))
        hung = [i for i, t in enumerate(threads) if t.is_alive()]
        if hung:
            self._degrade('threads still alive at the wall-clock watchdog')
            for t in threads:
                t.join(5)
            hung = [i for i, t in enumerate(threads) if t.is_alive()]
        mon.set_events(TOOL_ID, 0)
        mon.register_callback(TOOL_ID, mon.events.LINE, None)
        try:
            mon.free_tool_id(TOOL_ID)
        except Exception:
            pass
        CURRENT = None
        switches = [t for t in self.trace if len(t) == 4]
        digest = hashlib.sha1(repr([(a, b, c) for a, b, c, d in switches] + [d for a, b, c, d in switches]).encode()).hexdigest()[:16]
        return dict(results=self.results, errors=self.errors, steps=self.steps, switches=len(switches),
                    lock_handoffs=sum(1 for t in switches if t[2].startswith('blocked')), trace_digest=digest,
                    deadlock=self.deadlock, degraded=self.free_running and self.deadlock is None, hung=hung,
                    trace_tail=self.trace[-12:], events_seen=self.events_seen, event_switches=self.event_switches)

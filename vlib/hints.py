"""Hint grammar G with an independent reference semantics (DESIGN §3.1).

Every node knows
  src            source expression over vlib.hintenv (the hint object is eval(src))
  full(x, cx)    published meaning at full depth over every item (universal)
  possible(x,cx) existential reading: some sampled path is consistent
  gen_in / gen_bad / gen_one_bad   object generators (conforming, must-reject,
                 exactly-one-bad-item sequences)
None of this calls beartype.  By construction full => possible.
"""
from __future__ import annotations

import collections
import collections.abc as cabc
import itertools

from vlib import hintenv

ENV = None


def env():
    global ENV
    if ENV is None:
        ENV = hintenv.env()
    return ENV


def lookup(name):
    return eval(name, env())


class Cx:
    """Semantic context (configuration options that change the meaning)."""
    def __init__(self, tower=False):
        self.tower = tower


CX0 = Cx()


class CantGen(Exception):
    pass


def is_hashable(x):
    try:
        hash(x)
        return True
    except Exception:
        return False


# ---------------------------------------------------------------------------
# object pool used for non-conforming values and heterogeneous filler
# ---------------------------------------------------------------------------
def make_pool():
    e = env()
    A, B, C, D, Col = e['A'], e['B'], e['C'], e['D'], e['Col']
    def gen():
        yield 1
    def fn(a: int) -> str:
        return 'x'
    pool = [
        0, 1, -7, 2 ** 40, True, False, 0.0, 1.5, -2.25, 1 + 2j, 0j,
        '', 'a', 'abc', b'', b'xy', bytearray(b'q'), None, Ellipsis, NotImplemented,
        (), (1,), (1, 'a'), ('a', 1), (1, 2, 3), ((1,),), [], [1], ['a'], [1, 'a'], [[1]], [None],
        {}, {1: 'a'}, {'a': 1}, {'a': [1]}, set(), {1}, {'a'}, frozenset(), frozenset({1}),
        collections.deque(), collections.deque([1]), collections.deque(['a']),
        collections.OrderedDict(), collections.OrderedDict(a=1),
        collections.defaultdict(int), collections.defaultdict(int, a=1),
        collections.Counter(), collections.Counter('ab'), collections.ChainMap(), collections.ChainMap({'a': 1}),
        range(0), range(3), {1: 2}.keys(), {1: 2}.values(), {1: 2}.items(),
        A(), B(), C(), D(), Col.RED, Col.BLUE, e['IntSub'](5), e['StrSub']('s'),
        e['ListSub']([1]), e['DictSub'](a=1), e['TupleSub']((1,)), e['SetSub']({1}),
        e['WithFoo'](), e['WithFooLen'](), e['G'](1), e['GSub'](2), e['L']([1]), e['L'](['a']),
        e['M'](a=1), e['M']({1: 1}), e['LInt']([1]), e['GenSeq']([1]), e['GenSeq'](['a']),
        e['Bag']([1]), e['Bag'](['a']), e['Bag'](), e['Table']({'a': 1}), e['Table']({'a': e['Bag']([1])}),
        e['Table']({'a': e['Bag'](['x'])}), e['Table']({1: [e['Bag'](['s'])]}), e['Table']({1: [e['Bag']([1])]}),
        e['PairL']([e['Bag'](['a'])]), e['PairL']([e['Bag']([1])]), e['Scores']({1: 'a'}), e['Scores']({'a': 1}),
        e['Scores']({1: 1}), e['Table']({1: 'a'}), e['IntsT']([1]), e['IntsT'](['a']), e['TaggedInts'](['a']), e['TaggedInts']([2]),
        e['TableT']({'a': 1}), e['TableT']({'a': 'b'}), e['Person'](), e['Badge'](e['Person']()), e['BadgeList']([e['Person']()]),
        e['BadgeList']([1]), e['ClassList']([A]), e['ClassList']([C, int]), e['ClassList']([int]), e['ClassList']([A()]),
        e['ClassRegistry']({'a': B}), e['ClassRegistry']({'a': str}), e['ClassRegistry']({'a': 1}),
        int, str, bool, float, A, B, C, D, Col, type, object, list, dict, e['IntSub'],
        len, fn, gen(), iter([1]), iter(()), object(), lambda: 0,
    ]
    return pool


_POOL = None


def pool():
    global _POOL
    if _POOL is None:
        _POOL = make_pool()
    return _POOL


def size_pick(rng, depth):
    """Container size classes 0 / 1 / 2-7 / long; smaller when nested."""
    r = rng.random()
    if depth >= 2:
        return 0 if r < .15 else 1 if r < .45 else rng.randint(2, 3)
    if r < .12:
        return 0
    if r < .30:
        return 1
    if r < .88:
        return rng.randint(2, 7)
    return rng.choice((16, 41, 120)) if depth == 0 else rng.randint(8, 12)


# ---------------------------------------------------------------------------
class Node:
    kind = 'node'
    deciding = True          # model is confident about this family
    children: tuple = ()

    def __init__(self):
        self._hint = None
        self._built = False

    # -- construction -------------------------------------------------------
    @property
    def src(self) -> str:
        raise NotImplementedError

    def hint(self):
        if not self._built:
            self._hint = eval(self.src, env())
            self._built = True
        return self._hint

    def walk(self):
        yield self
        for c in self.children:
            yield from c.walk()

    def depth(self):
        return 1 + max((c.depth() for c in self.children), default=0)

    def kinds(self):
        return sorted({n.kind for n in self.walk()})

    def all_deciding(self):
        return all(n.deciding for n in self.walk())

    def ignorable(self):
        return False

    # -- semantics ----------------------------------------------------------
    def full(self, x, cx=CX0) -> bool:
        raise NotImplementedError

    def possible(self, x, cx=CX0) -> bool:
        return self.full(x, cx)

    # -- generators -----------------------------------------------------------
    def gen_in(self, rng, cx=CX0, depth=0, hashable=False):
        raise CantGen(self.kind)

    def gen_bad(self, rng, cx=CX0, depth=0, hashable=False):
        """An object with `not possible(x)` (must be rejected on every draw)."""
        cands = pool()
        for _ in range(40):
            x = rng.choice(cands)
            if hashable and not is_hashable(x):
                continue
            if not self.possible(x, cx):
                return x
        raise CantGen('bad:' + self.kind)

    def __repr__(self):
        return f'<{self.kind} {self.src}>'


# ---- leaves -----------------------------------------------------------------
_CLS_VALUES = None


def cls_values():
    global _CLS_VALUES
    if _CLS_VALUES is None:
        e = env()
        A, B, C, D, Col = e['A'], e['B'], e['C'], e['D'], e['Col']
        _CLS_VALUES = {
            'int': [0, 1, -1, 7, 2 ** 40, True, False, e['IntSub'](3)],
            'bool': [True, False],
            'str': ['', 'a', 'abc', 'x' * 40, e['StrSub']('s')],
            'bytes': [b'', b'a', b'xyz'],
            'float': [0.0, 1.5, -3.25, float('inf')],
            'complex': [0j, 1 + 2j],
            'A': [A(), B(), C()], 'B': [B(), C()], 'C': [C()], 'D': [D()],
            'Col': [Col.RED, Col.GREEN, Col.BLUE],
            'IntSub': [e['IntSub'](1)], 'StrSub': [e['StrSub']('q')],
            'list': [[], [1, 'a'], e['ListSub']([None])],
            'dict': [{}, {1: 'a'}, e['DictSub'](a=1)],
            'tuple': [(), (1, 'a'), e['TupleSub']((1,))],
            'set': [set(), {1, 'a'}], 'frozenset': [frozenset(), frozenset({1})],
            'type': [int, A, type, Col],
            'Hashable': [1, 'a', (1,), None, A()], 'Sized': [[], 'ab', {1: 2}, e['WithFooLen']()],
            'SupportsInt': [1, 1.5, True, e['IntSub'](2)], 'SupportsIndex': [1, True, e['IntSub'](2)],
            'SupportsAbs': [1, -1.5, 1j], 'MappingView': [{1: 2}.keys(), {}.values(), {1: 2}.items()],
            'RePatternStr': [e['_re'].compile('a'), e['_re'].compile(b'b')], 'ReMatchStr': [e['_re'].match('a', 'a')],
            'PathLikeStr': [e['_pathlib'].PurePosixPath('a')], 'CtxMgrInt': [e['WithCtx']()],
            'Person': [e['Person']()],
            'RealBox': [e['RealBox'](e['RealBox'](1)), e['RealBox'](e['RealBox'](2)), e['RealBox'](1),
                        e['RealBox'](e['RealBox'](e['RealBox'](1))), e['RealBox'](e['RealBox'](1))],
        }
    return _CLS_VALUES


_UNHASHABLE_CLS = {'list', 'dict', 'set'}
_ALIAS_RUNTIME_CLS = {'RePatternStr', 'ReMatchStr', 'PathLikeStr', 'CtxMgrInt'}


class Cls(Node):
    kind = 'class'

    def __init__(self, name):
        super().__init__()
        self.name = name

    @property
    def src(self):
        return self.name

    def _types(self, cx):
        c = lookup(self.name)
        if self.name in _ALIAS_RUNTIME_CLS:
            # a name bound to a subscripted standard-library hint checked by its origin class only
            import contextlib, os, re
            c = {'RePatternStr': re.Pattern, 'ReMatchStr': re.Match, 'PathLikeStr': os.PathLike,
                 'CtxMgrInt': contextlib.AbstractContextManager}[self.name]
        if cx.tower:
            if c is float:
                return (float, int)
            if c is complex:
                return (complex, float, int)
        return c

    def full(self, x, cx=CX0):
        return isinstance(x, self._types(cx))

    def gen_in(self, rng, cx=CX0, depth=0, hashable=False):
        if hashable and self.name in _UNHASHABLE_CLS:
            raise CantGen('unhashable class')
        vals = cls_values()[self.name]
        if cx.tower and self.name == 'float' and rng.random() < .5:
            return rng.choice([0, 3, True])
        if cx.tower and self.name == 'complex' and rng.random() < .6:
            return rng.choice([0, 3, 1.5])
        x = rng.choice(vals)
        if hashable and not is_hashable(x):
            raise CantGen('unhashable value')
        return x


class NoneH(Node):
    kind = 'None'
    src = 'None'

    def full(self, x, cx=CX0):
        return x is None

    def gen_in(self, rng, cx=CX0, depth=0, hashable=False):
        return None


class AnyH(Node):
    kind = 'any'

    def __init__(self, name='Any'):
        super().__init__()
        self.name = name

    @property
    def src(self):
        return self.name

    def ignorable(self):
        return True

    def full(self, x, cx=CX0):
        return True

    def gen_in(self, rng, cx=CX0, depth=0, hashable=False):
        for _ in range(20):
            x = rng.choice(pool())
            if not hashable or is_hashable(x):
                return x
        return 0

    def gen_bad(self, rng, cx=CX0, depth=0, hashable=False):
        raise CantGen('any has no bad object')


class LiteralH(Node):
    kind = 'literal'

    def __init__(self, value_srcs):
        super().__init__()
        self.value_srcs = tuple(sorted(dict.fromkeys(value_srcs)))
        self.values = [eval(s, env()) for s in self.value_srcs]

    @property
    def src(self):
        return 'Literal[' + ', '.join(self.value_srcs) + ']'

    def full(self, x, cx=CX0):
        return any(type(x) is type(v) and x == v for v in self.values)

    def possible(self, x, cx=CX0):
        types = tuple(type(v) for v in self.values)
        try:
            return isinstance(x, types) and any(x == v for v in self.values)
        except Exception:
            return True   # hostile __eq__: do not judge

    def gen_in(self, rng, cx=CX0, depth=0, hashable=False):
        v = rng.choice(self.values)
        # half of the time an equal value that is another object (parsed input, computed numbers, sliced strings):
        # a literal is matched by equality, not by identity
        if rng.random() < .5:
            if type(v) is str and v:
                return ''.join(list(v))
            if type(v) is bytes and v:
                return bytes(bytearray(v))
            if type(v) is int and not -5 <= v <= 256:
                return int(str(v))
        return v

    def gen_bad(self, rng, cx=CX0, depth=0, hashable=False):
        near = [2, 99, -1, 'zz', b'zz', '', None, False, True, 1.0, 2.0, env()['Col'].GREEN,
                env()['Col'].BLUE, env()['Col'].RED, 0, 1, 'a', b'x']
        rng.shuffle(near)
        for x in near:
            if not self.possible(x, cx):
                return x
        return super().gen_bad(rng, cx, depth, hashable)


# ---- unions -------------------------------------------------------------------
def _flatten_members(members):
    out = []
    for m in members:
        if isinstance(m, UnionH):
            out.extend(m.members)
        else:
            out.append(m)
    seen, uniq = set(), []
    for m in sorted(out, key=lambda n: n.src):
        if m.src not in seen:
            seen.add(m.src)
            uniq.append(m)
    return uniq


class UnionH(Node):
    kind = 'union'

    def __init__(self, members, spelling=None):
        super().__init__()
        self.members = _flatten_members(members)
        self.children = tuple(self.members)
        # one deterministic spelling per member set, so that ==-equal unions are
        # never spelled two ways (beartype memoises checkers by hint equality).
        from vlib.worker import digest
        self.spelling = digest('union', tuple(m.src for m in self.members)) % 3
        self._src = None

    @property
    def src(self):
        if self._src is None:
            self._src = self._make_src()
        return self._src

    def _make_src(self):
        ms = self.members
        if len(ms) == 1:
            return f'Union[{ms[0].src}]'
        srcs = [m.src for m in ms]
        nones = [m for m in ms if isinstance(m, NoneH)]
        if self.spelling == 1 and nones and len(ms) == 2:
            other = [m for m in ms if not isinstance(m, NoneH)][0]
            return f'Optional[{other.src}]'
        if self.spelling == 2:
            s = ' | '.join(f'({x})' if ' | ' in x else x for x in srcs)
            try:
                eval(s, env())
                return s
            except Exception:
                pass
        return 'Union[' + ', '.join(srcs) + ']'

    def ignorable(self):
        return any(m.ignorable() for m in self.members)

    def full(self, x, cx=CX0):
        return any(m.full(x, cx) for m in self.members)

    def possible(self, x, cx=CX0):
        return any(m.possible(x, cx) for m in self.members)

    def gen_in(self, rng, cx=CX0, depth=0, hashable=False):
        ms = list(self.members)
        rng.shuffle(ms)
        for m in ms:
            try:
                return m.gen_in(rng, cx, depth, hashable)
            except CantGen:
                continue
        raise CantGen('union')

    def gen_bad(self, rng, cx=CX0, depth=0, hashable=False):
        ms = list(self.members)
        rng.shuffle(ms)
        for m in ms:          # a deep violation of one member that no other member allows
            try:
                x = m.gen_bad(rng, cx, depth, hashable)
            except CantGen:
                continue
            if not self.possible(x, cx):
                return x
        return super().gen_bad(rng, cx, depth, hashable)


# ---- containers -----------------------------------------------------------------
def _items_in(child, rng, cx, depth, n, hashable):
    out = []
    for _ in range(n):
        out.append(child.gen_in(rng, cx, depth + 1, hashable))
    return out


def _hashables(child, rng, cx, depth, n):
    out, tries = [], 0
    while len(out) < n and tries < 4 * n + 4:
        tries += 1
        try:
            x = child.gen_in(rng, cx, depth + 1, True)
        except CantGen:
            break
        if is_hashable(x):
            out.append(x)
    return out


class OneShotSeq:
    """Pure-python re-iterable Sequence (not a list subclass)."""


class SeqH(Node):
    """Sampled sequences: list, List, Sequence, MutableSequence, tuple[T, ...]."""
    kind = 'sequence'
    ORIGINS = {
        'list': (list, 'list[{}]'), 'List': (list, 'List[{}]'),
        'Sequence': (cabc.Sequence, 'Sequence[{}]'),
        'MutableSequence': (cabc.MutableSequence, 'MutableSequence[{}]'),
        'tuplevar': (tuple, 'tuple[{}, ...]'), 'Tuplevar': (tuple, 'Tuple[{}, ...]'),
    }

    def __init__(self, origin, child):
        super().__init__()
        self.origin, self.child = origin, child
        self.children = (child,)
        self.cls, self.fmt = self.ORIGINS[origin]
        self.kind = 'seq:' + origin

    @property
    def src(self):
        return self.fmt.format(self.child.src)

    def full(self, x, cx=CX0):
        return isinstance(x, self.cls) and all(self.child.full(i, cx) for i in x)

    def possible(self, x, cx=CX0):
        if not isinstance(x, self.cls):
            return False
        if len(x) == 0:
            return True
        return any(self.child.possible(i, cx) for i in x)

    def _wrap(self, rng, items, hashable=False):
        e = env()
        if self.cls is tuple:
            return e['TupleSub'](items) if rng.random() < .15 else tuple(items)
        if hashable:
            if self.cls is cabc.Sequence:
                return tuple(items)
            raise CantGen('unhashable sequence')
        if self.cls is list:
            return e['ListSub'](items) if rng.random() < .15 else list(items)
        r = rng.random()
        if self.cls is cabc.MutableSequence:
            if r < .6:
                return list(items)
            if r < .8:
                return collections.deque(items)
            return e['ListSub'](items)
        # Sequence
        if r < .45:
            return list(items)
        if r < .75:
            return tuple(items)
        if r < .85:
            return e['GenSeq'](items)
        if r < .95:
            return collections.deque(items)
        return e['L'](items)

    def gen_in(self, rng, cx=CX0, depth=0, hashable=False):
        n = size_pick(rng, depth)
        # strings / bytes / ranges are sequences of str / int too
        if self.cls is cabc.Sequence and rng.random() < .12:
            for cand in (rng.choice(['', 'a', 'hello']), rng.choice([b'', b'ab']), range(rng.randint(0, 5))):
                if self.full(cand, cx):
                    return cand
        items = _items_in(self.child, rng, cx, depth, n, hashable)
        return self._wrap(rng, items, hashable)

    def gen_bad(self, rng, cx=CX0, depth=0, hashable=False):
        if rng.random() < .35:
            return super().gen_bad(rng, cx, depth, hashable)
        n = max(1, size_pick(rng, depth))
        try:
            items = [self.child.gen_bad(rng, cx, depth + 1, hashable) for _ in range(n)]
        except CantGen:
            return super().gen_bad(rng, cx, depth, hashable)
        return self._wrap(rng, items, hashable)

    def gen_one_bad(self, rng, cx=CX0, n=None, i=None):
        """(x, n, i): a sequence of length n whose only violating item is item i."""
        n = n or rng.choice((1, 2, 3, 4, 5, 6, 7, 9, 12))
        i = rng.randrange(n) if i is None else i
        items = _items_in(self.child, rng, cx, 1, n, False)
        items[i] = self.child.gen_bad(rng, cx, 1)
        return self._wrap(rng, items), n, i


class ReitH(Node):
    """Reiterables: only the first item is inspected."""
    kind = 'reiterable'
    ORIGINS = {
        'set': (set, 'set[{}]'), 'Set': (set, 'Set[{}]'),
        'frozenset': (frozenset, 'frozenset[{}]'), 'FrozenSet': (frozenset, 'FrozenSet[{}]'),
        'AbstractSet': (cabc.Set, 'AbstractSet[{}]'), 'MutableSet': (cabc.MutableSet, 'MutableSet[{}]'),
        'Collection': (cabc.Collection, 'Collection[{}]'), 'deque': (collections.deque, 'deque[{}]'),
        'KeysView': (cabc.KeysView, 'KeysView[{}]'), 'ValuesView': (cabc.ValuesView, 'ValuesView[{}]'),
    }
    HASHED = {'set', 'Set', 'frozenset', 'FrozenSet', 'AbstractSet', 'MutableSet', 'KeysView'}

    def __init__(self, origin, child):
        super().__init__()
        self.origin, self.child = origin, child
        self.children = (child,)
        self.cls, self.fmt = self.ORIGINS[origin]
        self.kind = 'reit:' + origin

    @property
    def src(self):
        return self.fmt.format(self.child.src)

    def full(self, x, cx=CX0):
        return isinstance(x, self.cls) and all(self.child.full(i, cx) for i in x)

    def possible(self, x, cx=CX0):
        if not isinstance(x, self.cls):
            return False
        if len(x) == 0:
            return True
        return any(self.child.possible(i, cx) for i in x)

    def _wrap(self, rng, items, hashable=False):
        e = env()
        o = self.origin
        if o in ('set', 'Set', 'MutableSet'):
            if hashable:
                raise CantGen('unhashable set')
            return e['SetSub'](items) if rng.random() < .15 else set(items)
        if o in ('frozenset', 'FrozenSet'):
            return frozenset(items)
        if o == 'AbstractSet':
            r = rng.random()
            if hashable or r < .3:
                return frozenset(items)
            if r < .6:
                return set(items)
            if r < .8:
                return dict.fromkeys(items).keys()
            return {k: i for i, k in enumerate(items)}.items() if False else set(items)
        if hashable:
            if o == 'Collection':
                return tuple(items)
            raise CantGen('unhashable')
        if o == 'deque':
            return collections.deque(items)
        if o == 'KeysView':
            return dict.fromkeys(items).keys()
        if o == 'ValuesView':
            return {i: v for i, v in enumerate(items)}.values()
        # Collection
        r = rng.random()
        if r < .3:
            return list(items)
        if r < .45:
            return tuple(items)
        if r < .6:
            return collections.deque(items)
        if all(map(is_hashable, items)):
            if r < .75:
                return set(items)
            if r < .9:
                return dict.fromkeys(items)
            return frozenset(items)
        return list(items)

    def _items(self, rng, cx, depth, n, gen):
        if self.origin in self.HASHED:
            return None
        return [gen() for _ in range(n)]

    def gen_in(self, rng, cx=CX0, depth=0, hashable=False):
        n = size_pick(rng, depth)
        if self.origin in self.HASHED or hashable:
            items = _hashables(self.child, rng, cx, depth, n)
        else:
            items = _items_in(self.child, rng, cx, depth, n, False)
        return self._wrap(rng, items, hashable)

    def gen_bad(self, rng, cx=CX0, depth=0, hashable=False):
        if rng.random() < .35:
            return super().gen_bad(rng, cx, depth, hashable)
        n = max(1, size_pick(rng, depth))
        need_hash = self.origin in self.HASHED or hashable
        try:
            items = [self.child.gen_bad(rng, cx, depth + 1, need_hash) for _ in range(n)]
        except CantGen:
            return super().gen_bad(rng, cx, depth, hashable)
        if need_hash and not all(map(is_hashable, items)):
            return super().gen_bad(rng, cx, depth, hashable)
        x = self._wrap(rng, items, hashable)
        if len(x) == 0 or self.possible(x, cx):
            return super().gen_bad(rng, cx, depth, hashable)
        return x


class NonCollectionIterable:
    """Iterable that is neither Sized nor a Container; counts iterations."""
    def __init__(self, items):
        self._items = list(items)
        self.iter_calls = 0

    def __iter__(self):
        self.iter_calls += 1
        return iter(self._items)

    def __repr__(self):
        return f'NonCollectionIterable({self._items!r})'


class NonCollectionReversible(NonCollectionIterable):
    def __reversed__(self):
        self.iter_calls += 1
        return reversed(self._items)


class NonCollectionContainer:
    def __init__(self, items):
        self._items = list(items)
        self.contains_calls = 0

    def __contains__(self, x):
        self.contains_calls += 1
        return x in self._items

    def __repr__(self):
        return f'NonCollectionContainer({self._items!r})'


class QuasiH(Node):
    """Iterable / Container / Reversible: inspected only when the object is a Collection."""
    kind = 'quasi'
    ORIGINS = {
        'Iterable': (cabc.Iterable, 'Iterable[{}]'), 'Container': (cabc.Container, 'Container[{}]'),
        'Reversible': (cabc.Reversible, 'Reversible[{}]'),
    }

    def __init__(self, origin, child):
        super().__init__()
        self.origin, self.child = origin, child
        self.children = (child,)
        self.cls, self.fmt = self.ORIGINS[origin]
        self.kind = 'quasi:' + origin

    @property
    def src(self):
        return self.fmt.format(self.child.src)

    def full(self, x, cx=CX0):
        if not isinstance(x, self.cls):
            return False
        if not isinstance(x, cabc.Collection):
            return True      # cannot be judged without consuming it
        return all(self.child.full(i, cx) for i in x)

    def possible(self, x, cx=CX0):
        if not isinstance(x, self.cls):
            return False
        if not isinstance(x, cabc.Collection) or len(x) == 0:
            return True
        return any(self.child.possible(i, cx) for i in x)

    def _wrap(self, rng, items, collection_only=False):
        o = self.origin
        r = rng.random()
        if r < .3:
            return list(items)
        if r < .4:
            return tuple(items)
        if r < .5:
            return collections.deque(items)
        if r < .65 and all(map(is_hashable, items)):
            return dict.fromkeys(items) if (o == 'Reversible' or r < .57) else set(items)
        if collection_only:
            return list(items)
        if o == 'Iterable':
            if r < .8:
                return (i for i in list(items))       # generator: one-shot
            if r < .9:
                return iter(list(items))
            return NonCollectionIterable(items)
        if o == 'Reversible':
            return NonCollectionReversible(items)
        return NonCollectionContainer(items)

    def gen_in(self, rng, cx=CX0, depth=0, hashable=False):
        n = size_pick(rng, depth)
        items = _items_in(self.child, rng, cx, depth, n, hashable)
        if hashable:
            return tuple(items)
        return self._wrap(rng, items)

    def gen_bad(self, rng, cx=CX0, depth=0, hashable=False):
        if rng.random() < .35 or hashable:
            return super().gen_bad(rng, cx, depth, hashable)
        n = max(1, size_pick(rng, depth))
        try:
            items = [self.child.gen_bad(rng, cx, depth + 1) for _ in range(n)]
        except CantGen:
            return super().gen_bad(rng, cx, depth, hashable)
        x = self._wrap(rng, items, collection_only=True)
        if self.possible(x, cx):
            return super().gen_bad(rng, cx, depth, hashable)
        return x


class ShallowH(Node):
    """Families whose children beartype does not inspect: only the origin class."""
    kind = 'shallow'
    FORMS = {
        'Iterator': (cabc.Iterator, 'Iterator[{0}]', 1),
        'Generator': (cabc.Generator, 'Generator[{0}, None, None]', 1),
        'AsyncIterator': (cabc.AsyncIterator, 'AsyncIterator[{0}]', 1),
        'Awaitable': (cabc.Awaitable, 'Awaitable[{0}]', 1),
        'Callable': (cabc.Callable, 'Callable[[{0}], {1}]', 2),
        'CallableEllipsis': (cabc.Callable, 'Callable[..., {0}]', 1),
        'ItemsView': (cabc.ItemsView, 'ItemsView[{0}, {1}]', 2),
        'KeysView': (cabc.KeysView, 'KeysView[{0}]', 1),
        'ValuesView': (cabc.ValuesView, 'ValuesView[{0}]', 1),
        'Coroutine': (cabc.Coroutine, 'Coroutine[None, None, {0}]', 1),
        'AsyncGenerator': (cabc.AsyncGenerator, 'AsyncGenerator[{0}, None]', 1),
    }

    def __init__(self, form, children):
        super().__init__()
        self.form = form
        self.cls, self.fmt, self.arity = self.FORMS[form]
        self.children = tuple(children)
        self.kind = 'shallow:' + form

    @property
    def src(self):
        return self.fmt.format(*(c.src for c in self.children))

    def full(self, x, cx=CX0):
        if not isinstance(x, self.cls):
            return False
        if self.form == 'ItemsView':
            k, v = self.children
            return all(k.full(a, cx) and v.full(b, cx) for a, b in x)
        if self.form in ('KeysView', 'ValuesView'):
            return all(self.children[0].full(a, cx) for a in x)
        return True

    def possible(self, x, cx=CX0):
        return isinstance(x, self.cls)

    def gen_in(self, rng, cx=CX0, depth=0, hashable=False):
        f = self.form
        if f in ('Iterator', 'Generator'):
            items = _items_in(self.children[0], rng, cx, depth, size_pick(rng, max(depth, 1)), False)
            if f == 'Generator' or rng.random() < .5:
                return (i for i in items)
            return iter(items)
        if f in ('AsyncIterator', 'AsyncGenerator'):
            async def agen():
                yield 1
            return agen()
        if f == 'Coroutine':
            class Co(cabc.Coroutine):
                def send(self, v): raise StopIteration
                def throw(self, *a): raise StopIteration
                def close(self): pass
                def __await__(self): return iter(())
            return Co()
        if f in ('KeysView', 'ValuesView'):
            n = size_pick(rng, max(depth, 1))
            if f == 'KeysView':
                return dict.fromkeys(_hashables(self.children[0], rng, cx, depth, n)).keys()
            return {i: self.children[0].gen_in(rng, cx, depth + 1) for i in range(n)}.values()
        if f == 'Awaitable':
            class Aw:
                def __await__(self):
                    return iter(())
            return Aw()
        if f in ('Callable', 'CallableEllipsis'):
            return rng.choice([len, (lambda a: a), env()['WithFoo'], print])
        if f == 'ItemsView':
            k, v = self.children
            n = size_pick(rng, max(depth, 1))
            keys = _hashables(k, rng, cx, depth, n)
            return {kk: v.gen_in(rng, cx, depth + 1) for kk in keys}.items()
        raise CantGen(f)


class MapH(Node):
    kind = 'mapping'
    ORIGINS = {
        'dict': (dict, 'dict[{}, {}]'), 'Dict': (dict, 'Dict[{}, {}]'),
        'Mapping': (cabc.Mapping, 'Mapping[{}, {}]'),
        'MutableMapping': (cabc.MutableMapping, 'MutableMapping[{}, {}]'),
        'OrderedDict': (collections.OrderedDict, 'OrderedDict[{}, {}]'),
        'defaultdict': (collections.defaultdict, 'defaultdict[{}, {}]'),
        'ChainMap': (collections.ChainMap, 'ChainMap[{}, {}]'),
        'Counter': (collections.Counter, 'Counter[{}]'),
    }

    def __init__(self, origin, key, value=None):
        super().__init__()
        self.origin = origin
        self.cls, self.fmt = self.ORIGINS[origin]
        if origin == 'Counter':
            value = Cls('int')
            self.children = (key,)
        else:
            self.children = (key, value)
        self.key, self.value = key, value
        self.kind = 'map:' + origin

    @property
    def src(self):
        if self.origin == 'Counter':
            return self.fmt.format(self.key.src)
        return self.fmt.format(self.key.src, self.value.src)

    def full(self, x, cx=CX0):
        if not isinstance(x, self.cls):
            return False
        return all(self.key.full(k, cx) and self.value.full(v, cx) for k, v in list(x.items()))

    def possible(self, x, cx=CX0):
        if not isinstance(x, self.cls):
            return False
        if len(x) == 0:
            return True
        return any(self.key.possible(k, cx) and self.value.possible(v, cx)
                   for k, v in list(x.items()))

    def _wrap(self, rng, pairs):
        e = env()
        d = dict(pairs)
        o = self.origin
        if o in ('dict', 'Dict'):
            r = rng.random()
            if r < .7:
                return d
            if r < .8:
                return e['DictSub'](d)
            if r < .9:
                return collections.OrderedDict(d)
            dd = collections.defaultdict(list)
            dd.update(d)
            return dd
        if o == 'OrderedDict':
            return collections.OrderedDict(d)
        if o == 'defaultdict':
            dd = collections.defaultdict(int)
            dd.update(d)
            return dd
        if o == 'ChainMap':
            items = list(d.items())
            h = len(items) // 2
            return collections.ChainMap(dict(items[:h]), dict(items[h:]))
        if o == 'Counter':
            c = collections.Counter()
            for k, v in d.items():
                c[k] = v
            return c
        r = rng.random()
        if r < .5:
            return d
        if r < .65:
            return collections.OrderedDict(d)
        if r < .8:
            items = list(d.items())
            return collections.ChainMap(dict(items[:1]), dict(items[1:]))
        if r < .9:
            dd = collections.defaultdict(int)
            dd.update(d)
            return dd
        if o == 'Mapping':
            import types
            return types.MappingProxyType(d)
        return e['DictSub'](d)

    def gen_in(self, rng, cx=CX0, depth=0, hashable=False):
        if hashable:
            raise CantGen('mapping unhashable')
        n = size_pick(rng, depth)
        keys = _hashables(self.key, rng, cx, depth, n)
        pairs = [(k, self.value.gen_in(rng, cx, depth + 1)) for k in keys]
        return self._wrap(rng, pairs)

    def gen_bad(self, rng, cx=CX0, depth=0, hashable=False):
        if rng.random() < .3 or hashable:
            return super().gen_bad(rng, cx, depth, hashable)
        n = max(1, size_pick(rng, depth))
        mode = rng.choice(('key', 'value', 'both'))
        try:
            pairs = []
            for _ in range(n):
                k = (self.key.gen_bad(rng, cx, depth + 1, True) if mode in ('key', 'both')
                     else self.key.gen_in(rng, cx, depth + 1, True))
                v = (self.value.gen_bad(rng, cx, depth + 1) if mode in ('value', 'both')
                     else self.value.gen_in(rng, cx, depth + 1))
                if not is_hashable(k):
                    raise CantGen('key')
                pairs.append((k, v))
        except CantGen:
            return super().gen_bad(rng, cx, depth, hashable)
        if self.origin == 'Counter' and not all(isinstance(v, int) for _, v in pairs) and False:
            pass
        x = self._wrap(rng, pairs)
        if len(x) == 0 or self.possible(x, cx):
            return super().gen_bad(rng, cx, depth, hashable)
        return x


class TupleFixedH(Node):
    kind = 'tuple:fixed'

    def __init__(self, children, typing_spelling=False, unpack=None):
        super().__init__()
        self.children = tuple(children)
        self.typing_spelling = typing_spelling
        # (start, stop): that run of children is spelled as an unpacked fixed tuple (PEP 646:
        # tuple[Unpack[tuple[A, B]], C] means tuple[A, B, C])
        self.unpack = unpack if (unpack and not typing_spelling and 0 <= unpack[0] < unpack[1] <= len(self.children)) else None

    @property
    def src(self):
        name = 'Tuple' if self.typing_spelling else 'tuple'
        if not self.children:
            return f'{name}[()]'
        if self.unpack:
            a, b = self.unpack
            parts = ([c.src for c in self.children[:a]] + ['Unpack[tuple[' + ', '.join(c.src for c in self.children[a:b]) + ']]']
                     + [c.src for c in self.children[b:]])
            return f'{name}[' + ', '.join(parts) + ']'
        return f'{name}[' + ', '.join(c.src for c in self.children) + ']'

    def full(self, x, cx=CX0):
        return (isinstance(x, tuple) and len(x) == len(self.children)
                and all(c.full(i, cx) for c, i in zip(self.children, x)))

    def possible(self, x, cx=CX0):
        return (isinstance(x, tuple) and len(x) == len(self.children)
                and all(c.possible(i, cx) for c, i in zip(self.children, x)))

    def gen_in(self, rng, cx=CX0, depth=0, hashable=False):
        items = [c.gen_in(rng, cx, depth + 1, hashable) for c in self.children]
        if rng.random() < .1:
            return env()['TupleSub'](items)
        return tuple(items)

    def gen_bad(self, rng, cx=CX0, depth=0, hashable=False):
        r = rng.random()
        if r < .25:
            return super().gen_bad(rng, cx, depth, hashable)
        items = [c.gen_in(rng, cx, depth + 1, hashable) for c in self.children]
        if r < .5 or not self.children:      # wrong length
            if items and rng.random() < .5:
                items.pop(rng.randrange(len(items)))
            else:
                items.insert(rng.randrange(len(items) + 1), rng.choice([0, 'x', None]))
            return tuple(items)
        order = list(range(len(self.children)))
        rng.shuffle(order)
        for i in order:
            try:
                items[i] = self.children[i].gen_bad(rng, cx, depth + 1, hashable)
                return tuple(items)
            except CantGen:
                continue
        items.append(0)
        return tuple(items)


class TypeH(Node):
    kind = 'type'

    def __init__(self, class_names, typing_spelling=False):
        super().__init__()
        self.class_names = tuple(sorted(class_names))   # () means type[Any]
        self.typing_spelling = typing_spelling

    @property
    def src(self):
        name = 'Type' if self.typing_spelling else 'type'
        if not self.class_names:
            return f'{name}[Any]'
        if len(self.class_names) == 1:
            return f'{name}[{self.class_names[0]}]'
        return f'{name}[Union[' + ', '.join(self.class_names) + ']]'

    def full(self, x, cx=CX0):
        if not isinstance(x, type):
            return False
        if not self.class_names:
            return True
        classes = [lookup(n) for n in self.class_names]
        if cx.tower:          # the numeric tower rewrites float / complex inside type[...] as well
            if complex in classes:
                classes += [float, int]
            if float in classes:
                classes += [int]
        return issubclass(x, tuple(classes))

    def gen_in(self, rng, cx=CX0, depth=0, hashable=False):
        e = env()
        cands = [int, str, bool, float, complex, e['A'], e['B'], e['C'], e['D'], e['Col'], e['IntSub'], type, object, list]
        good = [c for c in cands if self.full(c, cx)]
        if not good:
            raise CantGen('type')
        return rng.choice(good)

    def gen_bad(self, rng, cx=CX0, depth=0, hashable=False):
        e = env()
        cands = [int, str, bool, float, e['A'], e['B'], e['C'], e['D'], e['Col'], object, 3, 'A', e['A'](), None]
        bad = [c for c in cands if not self.full(c, cx)]
        if not bad:
            raise CantGen('type')
        return rng.choice(bad)


class NamedH(Node):
    """A predefined name of hintenv (TypeVar, NewType, PEP 695 alias, protocol,
    user generic) whose meaning is that of an underlying node / predicate."""

    def __init__(self, name, kind, under=None, isinst=None, items=None, gen=None, deciding=True):
        super().__init__()
        self.name, self.kind, self.under = name, kind, under
        self.isinst = isinst          # class name the object must be an instance of
        self.items = items            # ('seq', node) / ('map', knode, vnode): item constraint
        self._gen = gen
        self.deciding = deciding
        self.children = tuple(c for c in ((under,) if under else ()))

    @property
    def src(self):
        return self.name

    def ignorable(self):
        return self.under is None and self.isinst is None

    def _item_ok(self, x, cx, how):
        f = (lambda n, v: n.full(v, cx)) if how == 'full' else (lambda n, v: n.possible(v, cx))
        if self.items is None:
            return True
        if self.items[0] == 'seq':
            vals = list(x)
            if how == 'full':
                return all(f(self.items[1], v) for v in vals)
            return not vals or any(f(self.items[1], v) for v in vals)
        kn, vn = self.items[1], self.items[2]
        pairs = list(x.items())
        if how == 'full':
            return all(f(kn, k) and f(vn, v) for k, v in pairs)
        return not pairs or any(f(kn, k) and f(vn, v) for k, v in pairs)

    def full(self, x, cx=CX0):
        if self.under is not None:
            return self.under.full(x, cx)
        if self.isinst is not None:
            return isinstance(x, lookup(self.isinst)) and self._item_ok(x, cx, 'full')
        return True

    def possible(self, x, cx=CX0):
        if self.under is not None:
            return self.under.possible(x, cx)
        if self.isinst is not None:
            return isinstance(x, lookup(self.isinst)) and self._item_ok(x, cx, 'possible')
        return True

    def gen_in(self, rng, cx=CX0, depth=0, hashable=False):
        if self.under is not None:
            return self.under.gen_in(rng, cx, depth, hashable)
        if self._gen is not None:
            x = self._gen(rng, cx, depth)
            if hashable and not is_hashable(x):
                raise CantGen('unhashable')
            return x
        return AnyH().gen_in(rng, cx, depth, hashable)

    def gen_bad(self, rng, cx=CX0, depth=0, hashable=False):
        if self.under is not None:
            return self.under.gen_bad(rng, cx, depth, hashable)
        if self.ignorable():
            raise CantGen('ignorable')
        return super().gen_bad(rng, cx, depth, hashable)


def named_nodes():
    """Factories of the predefined named hints."""
    e = env()
    I, S, A_ = Cls('int'), Cls('str'), Cls('A')
    def g_G(rng, cx, d): return rng.choice([e['G'](1), e['G']('a'), e['GSub'](3)])
    def g_GSub(rng, cx, d): return e['GSub'](rng.randint(0, 9))
    def g_L(rng, cx, d): return e['L']([rng.choice([1, 'a', None]) for _ in range(size_pick(rng, d))])
    def g_Lint(rng, cx, d): return rng.choice([e['L'], e['LInt']])([rng.randint(0, 9) for _ in range(size_pick(rng, d))])
    def g_LInt(rng, cx, d): return e['LInt']([rng.randint(0, 9) for _ in range(size_pick(rng, d))])
    def g_Mint(rng, cx, d): return e['M']({'k%d' % i: i for i in range(size_pick(rng, d))})
    def g_GenSeq(rng, cx, d): return e['GenSeq']([rng.randint(0, 9) for _ in range(size_pick(rng, d))])
    def bag(item):
        mk = (lambda rng, i: rng.randint(0, 9)) if item.src == 'int' else (lambda rng, i: 's%d' % i)
        return NamedH(f'Bag[{item.src}]', 'generic:list-sub', isinst='Bag', items=('seq', item),
                      gen=lambda rng, cx, d: e['Bag']([mk(rng, i) for i in range(size_pick(rng, d))]))
    def g_foo(rng, cx, d): return rng.choice([e['WithFoo'](), e['WithFooLen']()])
    def g_foolen(rng, cx, d): return e['WithFooLen']()
    return [
        lambda: NamedH('T', 'typevar:free'),
        lambda: NamedH('TB', 'typevar:bound', under=Cls('A')),
        lambda: NamedH('TC', 'typevar:constrained', under=UnionH([Cls('int'), Cls('str')])),
        lambda: NamedH('TBU', 'typevar:bound-union', under=UnionH([Cls('int'), Cls('A')])),
        lambda: NamedH('NTInt', 'newtype', under=Cls('int')),
        lambda: NamedH('NTA', 'newtype', under=Cls('A')),
        lambda: NamedH('NTListInt', 'newtype:subscripted', under=SeqH('list', Cls('int'))),
        lambda: NamedH('NTNT', 'newtype:nested', under=Cls('int')),
        lambda: NamedH('AliasInt', 'pep695', under=Cls('int')),
        lambda: NamedH('AliasListInt', 'pep695', under=SeqH('list', Cls('int'))),
        lambda: NamedH('AliasUnion', 'pep695', under=UnionH([Cls('int'), Cls('str')])),
        lambda: NamedH('AliasOptA', 'pep695', under=UnionH([Cls('A'), NoneH()])),
        lambda: NamedH('HasFoo', 'protocol', isinst='HasFoo', gen=g_foo),
        lambda: NamedH('HasLenAndFoo', 'protocol', isinst='HasLenAndFoo', gen=g_foolen),
        lambda: NamedH('G', 'generic:unsub', isinst='G', gen=g_G),
        lambda: NamedH('G[int]', 'generic:sub', isinst='G', gen=g_G),
        lambda: NamedH('GSub', 'generic:subclass', isinst='GSub', gen=g_GSub),
        lambda: NamedH('L', 'generic:list-unsub', isinst='L', gen=g_L),
        lambda: NamedH('L[int]', 'generic:list-sub', isinst='L', items=('seq', I), gen=g_Lint),
        lambda: NamedH('LInt', 'generic:list-subclass', isinst='LInt', items=('seq', I), gen=g_LInt),
        lambda: NamedH('M[int]', 'generic:dict-sub', isinst='M', items=('map', S, I), gen=g_Mint),
        lambda: NamedH('GenSeq[int]', 'generic:seq-sub', isinst='GenSeq', items=('seq', I), gen=g_GenSeq),
        # two-parameter generics, generics nested in each other over a shared TypeVar, bounded TypeVars left open
        lambda: bag(I),
        lambda: bag(S),
        lambda: NamedH('Table[str, int]', 'generic:dict2-sub', isinst='Table', items=('map', S, I),
                       gen=lambda rng, cx, d: e['Table']({'k%d' % i: i for i in range(size_pick(rng, d))})),
        lambda: NamedH('Table[str, Bag[int]]', 'generic:dict2-sub-nested', isinst='Table', items=('map', S, bag(I)),
                       gen=lambda rng, cx, d: e['Table']({'k%d' % i: bag(I).gen_in(rng, cx, d + 1) for i in range(size_pick(rng, d))})),
        lambda: NamedH('Table[int, list[Bag[str]]]', 'generic:dict2-sub-nested', isinst='Table',
                       items=('map', I, SeqH('list', bag(S))),
                       gen=lambda rng, cx, d: e['Table']({i: [bag(S).gen_in(rng, cx, d + 2) for _ in range(size_pick(rng, d + 1))]
                                                         for i in range(size_pick(rng, d))})),
        lambda: NamedH('PairL[int, Bag[str]]', 'generic:list2-sub-nested', isinst='PairL', items=('seq', bag(S)),
                       gen=lambda rng, cx, d: e['PairL']([bag(S).gen_in(rng, cx, d + 1) for _ in range(size_pick(rng, d))])),
        lambda: NamedH('Scores', 'generic:dict2-subclass-bounded-typevars', isinst='Scores', items=('map', I, S),
                       gen=lambda rng, cx, d: e['Scores']({i: 's%d' % i for i in range(size_pick(rng, d))})),
        # generics over a TypeVar bounded by a runtime-checkable protocol with a data member
        lambda: NamedH('Badge[Person]', 'generic:protocol-bound', isinst='Badge',
                       gen=lambda rng, cx, d: e['Badge'](e['Person']())),
        lambda: NamedH('BadgeList[Person]', 'generic:protocol-bound', isinst='BadgeList', items=('seq', Cls('Person')),
                       gen=lambda rng, cx, d: e['BadgeList']([e['Person']() for _ in range(size_pick(rng, d))])),
        lambda: NamedH('TN', 'typevar:bound-protocol', isinst='HasName', gen=lambda rng, cx, d: e['Person']()),
        lambda: NamedH('HasName', 'protocol', isinst='HasName', gen=lambda rng, cx, d: e['Person']()),
        # several bases: constraining builtin generic + user-defined generic mixin, in both orders
        lambda: NamedH('IntsT', 'generic:multi-base', isinst='IntsT', items=('seq', I),
                       gen=lambda rng, cx, d: e['IntsT']([rng.randint(0, 9) for _ in range(size_pick(rng, d))])),
        lambda: NamedH('TaggedInts', 'generic:multi-base', isinst='TaggedInts', items=('seq', I),
                       gen=lambda rng, cx, d: e['TaggedInts']([rng.randint(0, 9) for _ in range(size_pick(rng, d))])),
        # type[T] inside the pseudo-superclass: the binding of T must reach type[...]
        lambda: NamedH('ClassList[A]', 'generic:type-of-typevar', isinst='ClassList', items=('seq', TypeH(['A'])),
                       gen=lambda rng, cx, d: e['ClassList']([rng.choice([e['A'], e['B'], e['C']]) for _ in range(size_pick(rng, d))])),
        lambda: NamedH('ClassList[int]', 'generic:type-of-typevar', isinst='ClassList', items=('seq', TypeH(['int'])),
                       gen=lambda rng, cx, d: e['ClassList']([rng.choice([int, bool, e['IntSub']]) for _ in range(size_pick(rng, d))])),
        lambda: NamedH('ClassRegistry[A]', 'generic:type-of-typevar', isinst='ClassRegistry', items=('map', S, TypeH(['A'])),
                       gen=lambda rng, cx, d: e['ClassRegistry']({'k%d' % i: rng.choice([e['A'], e['B'], e['C']]) for i in range(size_pick(rng, d))})),
        lambda: NamedH('TableT', 'generic:multi-base', isinst='TableT', items=('map', S, I),
                       gen=lambda rng, cx, d: e['TableT']({'k%d' % i: i for i in range(size_pick(rng, d))})),
    ]


class AnnotatedH(Node):
    """Annotated[H, junk...] (meaning H) or Annotated[H, validators...]."""
    kind = 'annotated'
    VALIDATORS = {
        # src -> predicate over the object (total)
        'Is[pred_truthy]': lambda x: hintenv.pred_truthy(x),
        'Is[pred_sized_lt3]': lambda x: hintenv.pred_sized_lt3(x),
        'Is[pred_even]': lambda x: hintenv.pred_even(x),
        '~Is[pred_even]': lambda x: not hintenv.pred_even(x),
        'Is[pred_not_none] & Is[pred_true]': lambda x: x is not None,
        'Is[pred_even] | Is[pred_truthy]': lambda x: hintenv.pred_even(x) or hintenv.pred_truthy(x),
        # negated compounds (operator precedence in the generated code: not (a and b) vs (not a) and b)
        '~(Is[pred_even] & Is[pred_truthy])': lambda x: not (hintenv.pred_even(x) and hintenv.pred_truthy(x)),
        '~(IsInstance[int] | Is[pred_sized_lt3])': lambda x: not (isinstance(x, int) or hintenv.pred_sized_lt3(x)),
        '~(~Is[pred_truthy] & IsInstance[int, str]) | IsEqual[1]':
            lambda x: (not ((not hintenv.pred_truthy(x)) and isinstance(x, (int, str)))) or _safe_eq(x, 1),
        # an attribute validator nested in one of the same attribute name, then a sibling on the OUTER value
        "IsAttr['real', IsAttr['real', IsEqual[1]] & IsInstance[RealBox]]":
            lambda x: hasattr(x, 'real') and hasattr(x.real, 'real') and _safe_eq(x.real.real, 1) and isinstance(x.real, hintenv.RealBox),
        'IsInstance[int, str]': lambda x: isinstance(x, (int, str)),
        '~IsInstance[bool]': lambda x: not isinstance(x, bool),
        'IsEqual[1]': lambda x: _safe_eq(x, 1),
        "IsAttr['real', IsEqual[1]]": lambda x: hasattr(x, 'real') and _safe_eq(getattr(x, 'real'), 1),
    }
    JUNK = ("'meta'", '3', '("a", 1)', 'None', 'int')

    def __init__(self, child, metas, validators):
        super().__init__()
        self.child = child
        self.children = (child,)
        self.metas = tuple(metas)
        self.validators = validators
        self.kind = 'annotated:validators' if validators else 'annotated:junk'

    @property
    def src(self):
        return f'Annotated[{self.child.src}, ' + ', '.join(self.metas) + ']'

    def _vals_ok(self, x):
        if not self.validators:
            return True
        return all(self.VALIDATORS[m](x) for m in self.metas)

    def full(self, x, cx=CX0):
        return self.child.full(x, cx) and self._vals_ok(x)

    def possible(self, x, cx=CX0):
        return self.child.possible(x, cx) and self._vals_ok(x)

    def gen_in(self, rng, cx=CX0, depth=0, hashable=False):
        for _ in range(30):
            x = self.child.gen_in(rng, cx, depth, hashable)
            if self._vals_ok(x):
                return x
        raise CantGen('annotated')

    def gen_bad(self, rng, cx=CX0, depth=0, hashable=False):
        if self.validators and rng.random() < .6:
            for _ in range(30):     # satisfies the base hint, fails a validator
                try:
                    x = self.child.gen_in(rng, cx, depth, hashable)
                except CantGen:
                    break
                if not self._vals_ok(x):
                    return x
        try:
            x = self.child.gen_bad(rng, cx, depth, hashable)
            if not self.possible(x, cx):
                return x
        except CantGen:
            pass
        return super().gen_bad(rng, cx, depth, hashable)


def _safe_eq(a, b):
    try:
        return bool(a == b)
    except Exception:
        return False


# ---------------------------------------------------------------------------
# random hint generator
# ---------------------------------------------------------------------------
_LEAF_CLASSES = ['int', 'str', 'bool', 'float', 'complex', 'bytes', 'A', 'B', 'C', 'D', 'Col',
                 'IntSub', 'list', 'dict', 'tuple', 'set', 'frozenset', 'type', 'Hashable', 'Sized',
                 'SupportsInt', 'SupportsIndex', 'SupportsAbs', 'MappingView', 'RePatternStr', 'ReMatchStr', 'PathLikeStr',
                 'CtxMgrInt', 'RealBox']
_HASHABLE_LEAF = ['int', 'str', 'bool', 'float', 'bytes', 'A', 'B', 'Col', 'IntSub', 'tuple', 'frozenset', 'Hashable']
_LITERAL_SRCS = ['0', '1', '2', '-1', 'True', 'False', "'a'", "'bc'", "''", "b'x'", 'None',
                 'Col.RED', 'Col.GREEN', "'read write'", '1099511627776', "b'xyz'"]


def gen_hint(rng, depth=3, hashable=False, allow_any=True, top=True):
    """A random hint node of nesting depth <= depth."""
    leaf = depth <= 0 or rng.random() < (.28 if top else .42)
    if leaf:
        r = rng.random()
        if r < .55:
            return Cls(rng.choice(_HASHABLE_LEAF if hashable else _LEAF_CLASSES))
        if r < .63:
            return NoneH()
        if r < .70 and allow_any:
            return AnyH(rng.choice(('Any', 'object')))
        if r < .82:
            return LiteralH(rng.sample(_LITERAL_SRCS, rng.randint(1, 4)))
        if r < .87:
            names = rng.sample(['A', 'B', 'D', 'int', 'str', 'Col', 'float', 'complex'], rng.choice((0, 1, 1, 2)))
            return TypeH(names, rng.random() < .3)
        nn = named_nodes()
        if hashable:
            nn = nn[:5] + nn[8:9] + nn[10:14]
        return rng.choice(nn)()
    d = depth - 1
    sub = lambda **kw: gen_hint(rng, d, top=False, **kw)
    r = rng.random()
    if r < .20:
        n = rng.choice((2, 2, 3, 4))
        return UnionH([gen_hint(rng, d if i == 0 else rng.randint(0, d), hashable, allow_any=rng.random() < .1, top=False)
                       for i in range(n)])
    if r < .32:
        n = rng.choice((0, 1, 2, 2, 3, 4))
        unpack = None
        if n >= 2 and rng.random() < .2:
            a = rng.choice((0, 0, rng.randrange(n)))
            unpack = (a, min(n, a + rng.choice((1, 2))))
        return TupleFixedH([sub(hashable=hashable) for _ in range(n)], rng.random() < .25, unpack)
    if r < .50:
        if hashable:
            return SeqH(rng.choice(('tuplevar', 'Tuplevar')), sub(hashable=True))
        return SeqH(rng.choice(list(SeqH.ORIGINS)), sub())
    if r < .62:
        if hashable:
            return ReitH(rng.choice(('frozenset', 'FrozenSet')), sub(hashable=True))
        o = rng.choice(list(ReitH.ORIGINS))
        return ReitH(o, sub(hashable=(o in ReitH.HASHED) or rng.random() < .3))
    if r < .76 and not hashable:
        o = rng.choice(list(MapH.ORIGINS))
        if o == 'Counter':
            return MapH(o, sub(hashable=True))
        return MapH(o, sub(hashable=True), sub())
    if r < .83 and not hashable:
        return QuasiH(rng.choice(list(QuasiH.ORIGINS)), sub())
    if r < .88 and not hashable:
        f = rng.choice(list(ShallowH.FORMS))
        ar = ShallowH.FORMS[f][2]
        kids = [sub(hashable=(f in ('ItemsView', 'KeysView') and i == 0)) for i in range(ar)]
        return ShallowH(f, kids)
    # Annotated
    child = sub(hashable=hashable)
    if isinstance(child, AnnotatedH):
        child = child.child
    if rng.random() < .5:
        return AnnotatedH(child, rng.sample(AnnotatedH.JUNK, rng.randint(1, 2)), False)
    return AnnotatedH(child, rng.sample(list(AnnotatedH.VALIDATORS), rng.randint(1, 2)), True)


def safe_gen_hint(rng, depth=3, **kw):
    """gen_hint, retried until the source expression actually evaluates."""
    for _ in range(50):
        h = gen_hint(rng, depth, **kw)
        try:
            h.hint()
            return h
        except Exception:
            continue
    raise CantGen('no evaluable hint')


def seq_lens(x, _depth=0, _out=None):
    """Lengths of all sequences reachable in x (for the draw sweep)."""
    out = [] if _out is None else _out
    if _depth > 5 or isinstance(x, (str, bytes, bytearray, range)):
        return out
    try:
        if isinstance(x, cabc.Sequence):
            if len(x):
                out.append(len(x))
            for i in itertools.islice(x, 8):
                seq_lens(i, _depth + 1, out)
        elif isinstance(x, cabc.Mapping):
            for k, v in itertools.islice(list(x.items()), 4):
                seq_lens(k, _depth + 1, out)
                seq_lens(v, _depth + 1, out)
        elif isinstance(x, (cabc.Set, collections.deque, cabc.KeysView, cabc.ValuesView)):
            for i in itertools.islice(x, 4):
                seq_lens(i, _depth + 1, out)
    except Exception:
        pass
    return out


# ---------------------------------------------------------------------------
# structural rewriting (C18): replace sub-hints, rebuilding the parents
# ---------------------------------------------------------------------------
def rebuild(node, f):
    """Copy of `node` where every sub-node n with f(n) not None is replaced by
    f(n) (the replacement is not visited again: single, non-recursive
    substitution)."""
    r = f(node)
    if r is not None:
        return r
    rb = lambda n: rebuild(n, f)
    if isinstance(node, UnionH):
        return UnionH([rb(m) for m in node.members])
    if isinstance(node, TupleFixedH):
        return TupleFixedH([rb(c) for c in node.children], node.typing_spelling, node.unpack)
    if isinstance(node, SeqH):
        return SeqH(node.origin, rb(node.child))
    if isinstance(node, ReitH):
        return ReitH(node.origin, rb(node.child))
    if isinstance(node, QuasiH):
        return QuasiH(node.origin, rb(node.child))
    if isinstance(node, ShallowH):
        return ShallowH(node.form, [rb(c) for c in node.children])
    if isinstance(node, MapH):
        if node.origin == 'Counter':
            return MapH('Counter', rb(node.key))
        return MapH(node.origin, rb(node.key), rb(node.value))
    if isinstance(node, AnnotatedH):
        return AnnotatedH(rb(node.child), node.metas, node.validators)
    return node     # leaves (incl. named forms, literals, type[...]) are kept


def subnodes(node):
    return list(node.walk())

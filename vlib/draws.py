"""Sampler controller (hooked state, DESIGN §3.2).

beartype draws one `getrandbits(32)` per checking call and derives every
sampled index from it.  `install()` must run *before* `import beartype`: it
replaces `random.getrandbits` by a controller that serves the armed value while
one is armed (counting how many draws were served) and otherwise defers to the
real generator.
"""
from __future__ import annotations

import random

_real = random.getrandbits


class _Ctl:
    armed = None      # value served while not None
    served = 0        # draws served since last arm()
    total = 0         # draws served while armed, whole process
    unarmed = 0       # draws passed through to the real generator


CTL = _Ctl()


def _getrandbits(k):
    if CTL.armed is not None and k == 32:
        CTL.served += 1
        CTL.total += 1
        return CTL.armed
    CTL.unarmed += 1
    return _real(k)


def install():
    import sys
    if 'beartype' in sys.modules:
        raise RuntimeError('draw controller must be installed before beartype is imported')
    random.getrandbits = _getrandbits


class armed:
    """Context manager: serve `value` for every 32-bit draw inside the block."""
    def __init__(self, value):
        self.value = value & 0xFFFFFFFF

    def __enter__(self):
        CTL.armed = self.value
        CTL.served = 0
        return CTL

    def __exit__(self, *exc):
        CTL.armed = None
        return False


def draw_set(rng, seq_lens, cap=24, extra_random=3):
    """Draws to sweep for an object whose sampled sequences have these lengths:
    every residue of the lcm (capped), the 32-bit edge values and a few random
    32-bit values."""
    from math import lcm
    L = 1
    for n in seq_lens:
        if n > 0:
            L = lcm(L, n)
            if L > 2520:
                L = 2520
                break
    base = list(range(L))
    if len(base) > cap:
        base = sorted(rng.sample(base, cap - 2) + [0, L - 1])
    out = list(dict.fromkeys(base + [2**31, 2**32 - 1] +
                             [rng.getrandbits(32) for _ in range(extra_random)]))
    return out

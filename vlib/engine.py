"""Verdict engine: one (hint, object, configuration, draw) through every entry
point of beartype, under the sampler controller (DESIGN §3.1/§3.2, C01-C03).

Importing this module imports beartype: `worker.use_repo()` and
`draws.install()` must already have run.
"""
from __future__ import annotations

import re
import warnings

from vlib import draws

import beartype
from beartype import BeartypeConf, BeartypeStrategy, BeartypeViolationVerbosity
from beartype.door import TypeHint, die_if_unbearable, is_bearable
from beartype.roar import (
    BeartypeCallHintParamViolation, BeartypeCallHintReturnViolation,
    BeartypeDoorHintViolation, BeartypeDoorNonpepException, BeartypeException,
    BeartypeHintViolation,
)

ENTRY_POINTS = ('is_bearable', 'die_if_unbearable', 'TypeHint.is_bearable',
                'TypeHint.die_if_unbearable', 'param', 'return')

_ANSI = re.compile(r'\x1b\[[0-9;]*m')


def strip_ansi(s):
    return _ANSI.sub('', s)


class CustomViolation(Exception):
    pass


class CustomDoorViolation(Exception):
    pass


class CustomParamViolation(Exception):
    pass


class CustomReturnViolation(Exception):
    pass


class CustomWarning(UserWarning):
    pass


class CustomDoorWarning(UserWarning):
    pass


class CustomParamWarning(UserWarning):
    pass


class CustomReturnWarning(UserWarning):
    pass


VIOLATION_CLASSES = {
    None: None, 'exc': CustomViolation, 'warn': CustomWarning,
    'door_exc': CustomDoorViolation, 'door_warn': CustomDoorWarning,
    'param_exc': CustomParamViolation, 'param_warn': CustomParamWarning,
    'return_exc': CustomReturnViolation, 'return_warn': CustomReturnWarning,
}


class ConfSpec:
    """A configuration given symbolically (so that it is printable/replayable)."""
    FIELDS = ('is_random', 'strategy', 'is_pep484_tower', 'violation_type',
              'violation_door_type', 'violation_param_type', 'violation_return_type',
              'violation_verbosity', 'is_color')

    def __init__(self, **kw):
        self.kw = dict(sorted(kw.items()))
        self._conf = None

    def conf(self):
        if self._conf is None:
            kw = {}
            for k, v in self.kw.items():
                if k == 'strategy':
                    v = getattr(BeartypeStrategy, v)
                elif k == 'violation_verbosity':
                    v = getattr(BeartypeViolationVerbosity, v)
                elif k.startswith('violation_') and k.endswith('type'):
                    v = VIOLATION_CLASSES[v]
                elif k == 'hint_overrides':
                    # given as ((source hint src, target hint src), ...)
                    from beartype import FrozenDict
                    from vlib import hints as _h
                    v = FrozenDict({eval(a, _h.env()): eval(b, _h.env()) for a, b in v})
                kw[k] = v
            self._conf = BeartypeConf(**kw)
        return self._conf

    @property
    def tower(self):
        return bool(self.kw.get('is_pep484_tower'))

    @property
    def is_random(self):
        return self.kw.get('is_random', True)

    def expected_class(self, where):
        """Configured class of the signal for where in door/param/return."""
        specific = self.kw.get(f'violation_{where}_type')
        generic = self.kw.get('violation_type')
        default = dict(door=BeartypeDoorHintViolation, param=BeartypeCallHintParamViolation,
                       ret=BeartypeCallHintReturnViolation, **{'return': BeartypeCallHintReturnViolation})[where]
        if specific is not None:
            return VIOLATION_CLASSES[specific]
        if generic is not None:
            return VIOLATION_CLASSES[generic]
        return default

    def key(self):
        return repr(self.kw)

    def __repr__(self):
        return 'BeartypeConf(' + ', '.join(f'{k}={v!r}' for k, v in self.kw.items()) + ')'


def gen_conf(rng, violation_options=False, rich=False):
    kw = {}
    if rng.random() < .3:
        kw['is_random'] = False
    r = rng.random()
    if r < .2:
        kw['strategy'] = 'On'
    elif r < .3:
        kw['strategy'] = 'Ologn'
    if rng.random() < .2:
        kw['is_pep484_tower'] = True
    if violation_options or rng.random() < .25:
        if rng.random() < .4:
            kw['violation_type'] = rng.choice(['exc', 'warn'])
        if rng.random() < .3:
            kw['violation_door_type'] = rng.choice(['door_exc', 'door_warn'])
        if rng.random() < .3:
            kw['violation_param_type'] = rng.choice(['param_exc', 'param_warn'])
        if rng.random() < .3:
            kw['violation_return_type'] = rng.choice(['return_exc', 'return_warn'])
    if rng.random() < .3:
        kw['violation_verbosity'] = rng.choice(['MINIMAL', 'DEFAULT', 'MAXIMAL'])
    if rng.random() < .3:
        kw['is_color'] = rng.choice([True, False, None])
    return ConfSpec(**kw)


_SENT = object()


class Outcome:
    __slots__ = ('verdict', 'exc', 'warned', 'draws', 'value')

    def __init__(self, verdict, exc=None, warned=(), draws=0, value=None):
        self.verdict, self.exc, self.warned, self.draws, self.value = verdict, exc, warned, draws, value

    def brief(self):
        if self.verdict == 'error':
            return f'error:{type(self.exc).__name__}'
        return self.verdict


class Subject:
    """A hint under a configuration, prepared for all six entry points."""

    def __init__(self, hint, confspec):
        self.hint = hint
        self.cs = confspec
        self.conf = confspec.conf()
        self.prep_error = {}
        self.th_unsupported = False
        try:
            self.th = TypeHint(hint)
        except BeartypeDoorNonpepException:
            # "currently unsupported by beartype.door.TypeHint": the wrapper API
            # declares this hint outside its domain; the entry point is skipped.
            self.th = None
            self.th_unsupported = True
        except Exception as e:   # noqa
            self.th = None
            self.prep_error['TypeHint'] = e
        self.fp = self._decorate('param')
        self.fr = self._decorate('return')

    def _decorate(self, where):
        if where == 'param':
            def fp(a):
                return _SENT
            fp.__annotations__ = {'a': self.hint}
            f = fp
        else:
            def fr(a):
                return a
            fr.__annotations__ = {'return': self.hint}
            f = fr
        try:
            return beartype.beartype(conf=self.conf)(f)
        except Exception as e:   # noqa
            self.prep_error[where] = e
            return None

    def _classify(self, where, fn, warn_cls):
        """Run fn() and classify: accept / reject (violation raised or warned) / error."""
        with warnings.catch_warnings(record=True) as wlist:
            warnings.simplefilter('always')
            try:
                value = fn()
            except BaseException as e:   # noqa
                exp = self.cs.expected_class(where)
                if isinstance(e, BeartypeHintViolation) or (
                        exp is not None and type(e) is exp):
                    return Outcome('reject', exc=e, warned=tuple(wlist))
                if isinstance(e, (KeyboardInterrupt, SystemExit)):
                    raise
                return Outcome('error', exc=e, warned=tuple(wlist))
        exp = self.cs.expected_class(where)
        mine = [w for w in wlist if isinstance(w.message, Warning) and (
            type(w.message) is exp or isinstance(w.message, (CustomWarning, CustomDoorWarning,
                                                             CustomParamWarning, CustomReturnWarning)))]
        if mine:
            return Outcome('reject', exc=mine[0].message, warned=tuple(wlist), value=value)
        return Outcome('accept', warned=tuple(wlist), value=value)

    def run(self, ep, x, r):
        """Outcome of entry point `ep` on object x under draw r."""
        hint, conf = self.hint, self.conf
        if self.th_unsupported and ep.startswith('TypeHint.'):
            return Outcome('skip')
        with draws.armed(r) as ctl:
            if ep == 'is_bearable':
                try:
                    v = is_bearable(x, hint, conf=conf)
                    out = Outcome('accept' if v is True else 'reject' if v is False else 'error',
                                  exc=None if isinstance(v, bool) else TypeError(f'non-bool {v!r}'))
                except BaseException as e:   # noqa
                    out = Outcome('error', exc=e)
            elif ep == 'TypeHint.is_bearable':
                if self.th is None:
                    out = Outcome('error', exc=self.prep_error['TypeHint'])
                else:
                    try:
                        v = self.th.is_bearable(x, conf=conf)
                        out = Outcome('accept' if v is True else 'reject' if v is False else 'error',
                                      exc=None if isinstance(v, bool) else TypeError(f'non-bool {v!r}'))
                    except BaseException as e:   # noqa
                        out = Outcome('error', exc=e)
            elif ep == 'die_if_unbearable':
                out = self._classify('door', lambda: die_if_unbearable(x, hint, conf=conf), None)
            elif ep == 'TypeHint.die_if_unbearable':
                if self.th is None:
                    out = Outcome('error', exc=self.prep_error['TypeHint'])
                else:
                    out = self._classify('door', lambda: self.th.die_if_unbearable(x, conf=conf), None)
            elif ep == 'param':
                if self.fp is None:
                    out = Outcome('error', exc=self.prep_error['param'])
                else:
                    out = self._classify('param', lambda: self.fp(x), None)
            elif ep == 'return':
                if self.fr is None:
                    out = Outcome('error', exc=self.prep_error['return'])
                else:
                    out = self._classify('return', lambda: self.fr(x), None)
            else:
                raise ValueError(ep)
            out.draws = ctl.served
        return out


def exc_site(e):
    """(exception class name, innermost beartype frame as module:function) -
    the mechanism key of a leaked / unexpected exception."""
    tb = e.__traceback__
    site = None
    while tb is not None:
        fn = tb.tb_frame.f_code.co_filename
        if '/beartype/' in fn and 'beartype_test' not in fn:
            mod = fn.split('/beartype/', 1)[1].rsplit('.', 1)[0].replace('/', '.')
            site = f'{mod}:{tb.tb_frame.f_code.co_name}'
        elif fn.startswith('<@beartype('):
            site = 'generated:' + tb.tb_frame.f_code.co_name.split('__beartype_')[0][:0] + 'wrapper'
        tb = tb.tb_next
    return f'{type(e).__name__}@{site}'

"""Worker-side plumbing shared by every workload (pure stdlib).

A workload is run as  `python workloads/cNN_x.py --seed S --tier T --worker k
--nworkers N --budget B [--replay-case JSON]`.  Case `i` of a property is a
pure function of (seed, property, i): its RNG is seeded from a sha256 digest, so
a case replays from its index alone, whatever the worker count.
"""
from __future__ import annotations

import argparse
import hashlib
import json
import os
import random
import sys
import time
import traceback

REPO = os.environ.get('VERIF_REPO', '/repo')


def use_repo() -> str:
    """Put the repository under test first on sys.path (before any import of it)."""
    if 'beartype' in sys.modules:
        raise RuntimeError('beartype imported before use_repo()')
    sys.path.insert(0, REPO)
    return REPO


def digest(*parts) -> int:
    h = hashlib.sha256(repr(parts).encode()).digest()
    return int.from_bytes(h[:8], 'big')


def short(obj, n=300) -> str:
    try:
        s = obj if isinstance(obj, str) else repr(obj)
    except BaseException as e:  # hostile reprs
        s = f'<repr raised {type(e).__name__}>'
    return s if len(s) <= n else s[:n] + f'...(+{len(s) - n})'


class Worker:
    def __init__(self, prop: str, rule: str = '', assumptions=()):
        ap = argparse.ArgumentParser()
        ap.add_argument('--seed', type=int, default=0)
        ap.add_argument('--tier', default='quick')
        ap.add_argument('--worker', type=int, default=0)
        ap.add_argument('--nworkers', type=int, default=1)
        ap.add_argument('--budget', type=float, default=30.0)
        ap.add_argument('--replay-case', default=None)
        a = ap.parse_args()
        self.prop, self.seed, self.tier = prop, a.seed, a.tier
        self.k, self.n, self.budget = a.worker, a.nworkers, a.budget
        self.replay_case = json.loads(a.replay_case) if a.replay_case else None
        self.t0 = time.time()
        self.evaluations = 0
        self.distinct: set = set()
        self.counters: dict = {}
        self.sets: dict = {}
        self.samples: list = []
        self.nviol = 0
        self.viol_keys: dict = {}
        self.rule = rule
        self.assumptions = list(assumptions)
        self.require: dict = {}
        self.quick = (self.tier == 'quick')

    # -- case iteration ----------------------------------------------------
    def time_left(self) -> float:
        return self.budget - (time.time() - self.t0)

    def cases(self, stream: str, limit: int, frac: float = 1.0):
        """Yield this worker's case indices of `stream` (k, k+n, ...) < limit,
        until `frac` of the time budget is used.  In replay mode yields only the
        recorded case if it belongs to this stream."""
        if self.replay_case is not None:
            if self.replay_case.get('stream') == stream:
                yield int(self.replay_case['index'])
            return
        deadline = self.t0 + self.budget * frac
        i = self.k
        while i < limit:
            if time.time() > deadline:
                self.count(f'{stream}.stopped_by_time')
                return
            yield i
            i += self.n

    def rng(self, stream: str, index: int) -> random.Random:
        return random.Random(digest(self.seed, self.prop, stream, index))

    def is_lead(self) -> bool:
        """True for the one worker that runs the directed (non-random) probes."""
        return self.k == 0 and self.replay_case is None or (
            self.replay_case is not None and self.replay_case.get('stream') == 'directed')

    # -- observations ------------------------------------------------------
    def evaluate(self, distinct_key=None, n: int = 1):
        self.evaluations += n
        if distinct_key is not None and len(self.distinct) < 200000:
            self.distinct.add(hashlib.sha1(repr(distinct_key).encode()).hexdigest()[:12])

    def count(self, name: str, n: int = 1):
        self.counters[name] = self.counters.get(name, 0) + n

    def add(self, setname: str, value):
        s = self.sets.setdefault(setname, set())
        if len(s) < 400:
            s.add(str(value))

    def sample(self, obj, every: int = 1):
        if len(self.samples) < 4:
            self.samples.append(obj)

    def need(self, counter: str, minimum: int):
        """Declare a minimum reach for `counter` (summed over workers) below
        which the run is inconclusive rather than held."""
        self.require[counter] = minimum

    def violation(self, key: str, what: str, stream: str, index, witness=None):
        self.nviol += 1
        n = self.viol_keys.get(key, 0)
        self.viol_keys[key] = n + 1
        if n >= 5:       # keep the output bounded per mechanism key
            return
        rec = dict(key=key, what=short(what, 1500),
                   case=dict(stream=stream, index=index),
                   witness=witness)
        sys.stdout.write('@@VIOL ' + json.dumps(rec, default=short) + '\n')
        sys.stdout.flush()

    def finish(self):
        for key, n in self.viol_keys.items():
            self.count('violations_by_key.' + key, n)
        res = dict(evaluations=self.evaluations, distinct=sorted(self.distinct),
                   counters=self.counters,
                   sets={k: sorted(v) for k, v in self.sets.items()},
                   samples=self.samples, rule=self.rule,
                   assumptions=self.assumptions, require=self.require,
                   wall=round(time.time() - self.t0, 2))
        sys.stdout.write('@@RESULT ' + json.dumps(res, default=short) + '\n')
        sys.stdout.flush()


def guarded(fn):
    """Run a workload main; a crash of the harness itself is reported on stderr
    and as a non-zero exit (the driver then reports 'inconclusive')."""
    try:
        fn()
    except SystemExit:
        raise
    except BaseException:
        traceback.print_exc()
        sys.exit(3)

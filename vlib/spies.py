"""Spy containers / iterables: log every special and public method invoked on
them (DESIGN §3.3).  Single-threaded drives only: the log is a plain list."""
from __future__ import annotations

import collections
import collections.abc as cabc

LOG: list = []          # (tag, event, detail) triples of the current observation window


def reset():
    LOG.clear()


def events(tag=None):
    return [e for e in LOG if tag is None or e[0] == tag]


READ_EVENTS = {'next', 'getitem'}
READONLY_EVENTS = {
    'len', 'iter', 'next', 'getitem', 'contains', 'eq', 'ne', 'hash', 'repr', 'str', 'bool',
    'keys', 'values', 'items', 'reversed', 'get', 'count', 'index', 'copy', 'iter_exhausted',
    'format', 'sizeof', 'instancecheck', 'subclasscheck', 'getattr',
}


def reads(tag=None):
    return sum(1 for e in LOG if e[1] in READ_EVENTS and (tag is None or e[0] == tag))


def vector():
    """Multiset of (tag, event) over the window, repr events kept apart."""
    c = collections.Counter((t, ev) for t, ev, _ in LOG)
    return dict(sorted(c.items()))


class SpyIter:
    """Iterator handed out by a spy's __iter__: logs each produced item."""
    def __init__(self, tag, it):
        self._tag, self._it = tag, it

    def __iter__(self):
        return self

    def __next__(self):
        try:
            v = next(self._it)
        except StopIteration:
            LOG.append((self._tag, 'iter_exhausted', None))
            raise
        LOG.append((self._tag, 'next', None))
        return v


_MUTATORS = ('append', 'extend', 'insert', 'pop', 'remove', 'clear', 'sort', 'reverse', 'popitem',
             'setdefault', 'update', 'add', 'discard', 'appendleft', 'popleft', 'extendleft', 'rotate',
             'move_to_end', 'subtract', 'difference_update', 'intersection_update',
             'symmetric_difference_update', '__setitem__', '__delitem__', '__iadd__', '__imul__',
             '__ior__', '__iand__', '__ixor__', '__isub__')


def _make_builtin_spy(base, name, mapping=False):
    ns = {}

    def __init__(self, *a, **kw):
        tag = kw.pop('_tag', name)
        base.__init__(self, *a, **kw)
        object.__setattr__(self, '_tag', tag) if hasattr(self, '__dict__') else None
    if base in (tuple, frozenset):
        def __new__(cls, *a, **kw):
            tag = kw.pop('_tag', name)
            self = base.__new__(cls, *a, **kw)
            self._tag = tag
            return self
        ns['__new__'] = __new__
    else:
        def __init__(self, *a, **kw):   # noqa: F811
            self._tag = kw.pop('_tag', name)
            base.__init__(self, *a, **kw)
        ns['__init__'] = __init__

    def __len__(self):
        LOG.append((self._tag, 'len', None))
        return base.__len__(self)

    def __iter__(self):
        LOG.append((self._tag, 'iter', None))
        return SpyIter(self._tag, base.__iter__(self))

    def __contains__(self, x):
        LOG.append((self._tag, 'contains', None))
        return base.__contains__(self, x)

    def __repr__(self):
        LOG.append((self._tag, 'repr', None))
        return f'{name}(<{base.__len__(self)} items>)'

    def __eq__(self, o):
        LOG.append((self._tag, 'eq', None))
        return base.__eq__(self, o)

    def __ne__(self, o):
        # (kept apart from 'eq': nothing in a type-check has a reason to ask whether its subject differs from something)
        LOG.append((self._tag, 'ne-comparison', None))
        return base.__ne__(self, o)

    def __bool__(self):
        # who asks: a callable the user placed in a validator (a predicate of vlib/hintenv.py) may; the checking code may not
        import sys as _sys
        fn = _sys._getframe(1).f_code.co_filename
        LOG.append((self._tag, 'bool' if fn.endswith('hintenv.py') else 'truth-test', None))
        return base.__len__(self) > 0

    ns.update(__len__=__len__, __iter__=__iter__, __contains__=__contains__, __repr__=__repr__,
              __eq__=__eq__, __ne__=__ne__, __bool__=__bool__)
    if base.__hash__ is not None:
        def __hash__(self):
            LOG.append((self._tag, 'hash', None))
            return base.__hash__(self)
        ns['__hash__'] = __hash__
    else:
        ns['__hash__'] = None
    if hasattr(base, '__getitem__'):
        def __getitem__(self, i):
            LOG.append((self._tag, 'getitem', i if isinstance(i, (int, str)) else None))
            return base.__getitem__(self, i)
        ns['__getitem__'] = __getitem__
    if hasattr(base, '__reversed__'):
        def __reversed__(self):
            LOG.append((self._tag, 'reversed', None))
            return SpyIter(self._tag, base.__reversed__(self))
        ns['__reversed__'] = __reversed__
    if hasattr(base, '__missing__') or base is collections.defaultdict:
        def __missing__(self, k):
            LOG.append((self._tag, '__missing__', None))
            return base.__missing__(self, k)
        ns['__missing__'] = __missing__
    if mapping:
        def keys(self):
            LOG.append((self._tag, 'keys', None))
            return cabc.KeysView(self)

        def values(self):
            LOG.append((self._tag, 'values', None))
            return cabc.ValuesView(self)

        def items(self):
            LOG.append((self._tag, 'items', None))
            return cabc.ItemsView(self)

        def get(self, k, d=None):
            LOG.append((self._tag, 'get', None))
            return base.get(self, k, d)
        ns.update(keys=keys, values=values, items=items, get=get)
    for m in _MUTATORS:
        if hasattr(base, m):
            def mut(self, *a, _m=m, **kw):
                LOG.append((self._tag, 'MUTATE:' + _m, None))
                return getattr(base, _m)(self, *a, **kw)
            ns[m] = mut
    return type(name, (base,), ns)


SpyList = _make_builtin_spy(list, 'SpyList')
SpyTuple = _make_builtin_spy(tuple, 'SpyTuple')
SpyDict = _make_builtin_spy(dict, 'SpyDict', mapping=True)
SpySet = _make_builtin_spy(set, 'SpySet')
SpyFrozenSet = _make_builtin_spy(frozenset, 'SpyFrozenSet')
SpyDeque = _make_builtin_spy(collections.deque, 'SpyDeque')
SpyOrderedDict = _make_builtin_spy(collections.OrderedDict, 'SpyOrderedDict', mapping=True)
SpyCounter = _make_builtin_spy(collections.Counter, 'SpyCounter', mapping=True)


class SpyDefaultDict(collections.defaultdict):
    def __init__(self, factory, data=(), _tag='SpyDefaultDict'):
        self._tag = _tag
        super().__init__(factory, data)

    def __len__(self):
        LOG.append((self._tag, 'len', None))
        return super().__len__()

    def __iter__(self):
        LOG.append((self._tag, 'iter', None))
        return SpyIter(self._tag, super().__iter__())

    def __getitem__(self, k):
        LOG.append((self._tag, 'getitem', None))
        return super().__getitem__(k)

    def __missing__(self, k):
        LOG.append((self._tag, 'MUTATE:__missing__', None))
        return super().__missing__(k)

    def __setitem__(self, k, v):
        LOG.append((self._tag, 'MUTATE:__setitem__', None))
        return super().__setitem__(k, v)

    def __contains__(self, k):
        LOG.append((self._tag, 'contains', None))
        return super().__contains__(k)

    def __repr__(self):
        LOG.append((self._tag, 'repr', None))
        return f'SpyDefaultDict(<{super().__len__()} items>)'

    def keys(self):
        LOG.append((self._tag, 'keys', None))
        return cabc.KeysView(self)

    def values(self):
        LOG.append((self._tag, 'values', None))
        return cabc.ValuesView(self)

    def items(self):
        LOG.append((self._tag, 'items', None))
        return cabc.ItemsView(self)

    def setdefault(self, *a):
        LOG.append((self._tag, 'MUTATE:setdefault', None))
        return super().setdefault(*a)

    def pop(self, *a):
        LOG.append((self._tag, 'MUTATE:pop', None))
        return super().pop(*a)


# ---- pure-Python implementations of the ABCs -------------------------------------
class _PyBase:
    def __init__(self, items=(), _tag=None):
        self._items = list(items)
        self._tag = _tag or type(self).__name__

    def __repr__(self):
        LOG.append((self._tag, 'repr', None))
        return f'{type(self).__name__}(<{len(self._items)} items>)'


class PySequence(_PyBase, cabc.Sequence):
    def __len__(self):
        LOG.append((self._tag, 'len', None))
        return len(self._items)

    def __getitem__(self, i):
        LOG.append((self._tag, 'getitem', i if isinstance(i, int) else None))
        return self._items[i]

    def __iter__(self):
        LOG.append((self._tag, 'iter', None))
        return SpyIter(self._tag, iter(self._items))

    def __contains__(self, x):
        LOG.append((self._tag, 'contains', None))
        return x in self._items

    def __reversed__(self):
        LOG.append((self._tag, 'reversed', None))
        return SpyIter(self._tag, reversed(self._items))


class PyCollection(_PyBase, cabc.Collection):
    def __len__(self):
        LOG.append((self._tag, 'len', None))
        return len(self._items)

    def __iter__(self):
        LOG.append((self._tag, 'iter', None))
        return SpyIter(self._tag, iter(self._items))

    def __contains__(self, x):
        LOG.append((self._tag, 'contains', None))
        return x in self._items


class PySet(PyCollection, cabc.Set):
    pass


class PyMapping(cabc.Mapping):
    def __init__(self, data=(), _tag='PyMapping'):
        self._d = dict(data)
        self._tag = _tag

    def __len__(self):
        LOG.append((self._tag, 'len', None))
        return len(self._d)

    def __iter__(self):
        LOG.append((self._tag, 'iter', None))
        return SpyIter(self._tag, iter(self._d))

    def __getitem__(self, k):
        LOG.append((self._tag, 'getitem', None))
        return self._d[k]

    def __contains__(self, k):
        LOG.append((self._tag, 'contains', None))
        return k in self._d

    def __repr__(self):
        LOG.append((self._tag, 'repr', None))
        return f'PyMapping(<{len(self._d)} items>)'


class PyIterable:
    """Iterable that is not a Collection (no __len__/__contains__)."""
    def __init__(self, items=(), _tag='PyIterable'):
        self._items = list(items)
        self._tag = _tag

    def __iter__(self):
        LOG.append((self._tag, 'iter', None))
        return SpyIter(self._tag, iter(self._items))

    def __repr__(self):
        LOG.append((self._tag, 'repr', None))
        return f'PyIterable(<{len(self._items)} items>)'


class PyReversible(PyIterable):
    def __reversed__(self):
        LOG.append((self._tag, 'reversed', None))
        return SpyIter(self._tag, reversed(self._items))


class PyContainer:
    def __init__(self, items=(), _tag='PyContainer'):
        self._items = list(items)
        self._tag = _tag

    def __contains__(self, x):
        LOG.append((self._tag, 'contains', None))
        return x in self._items

    def __repr__(self):
        LOG.append((self._tag, 'repr', None))
        return f'PyContainer(<{len(self._items)} items>)'


class PyIterator:
    """One-shot iterator; remembers what it was built from."""
    def __init__(self, items=(), _tag='PyIterator'):
        self.planted = list(items)
        self._it = iter(self.planted)
        self._tag = _tag

    def __iter__(self):
        LOG.append((self._tag, 'iter', None))
        return self

    def __next__(self):
        LOG.append((self._tag, 'MUTATE:__next__', None))
        return next(self._it)

    def __repr__(self):
        LOG.append((self._tag, 'repr', None))
        return f'PyIterator(<{len(self.planted)} planted>)'

    def drain(self):
        return list(self._it)


class PySizedIterator(PyIterator):
    """One-shot iterator that also reports its remaining length (like a data
    loader / batch iterator): Sized and Iterable, but not a Collection."""
    def __len__(self):
        LOG.append((self._tag, 'len', None))
        return len(self.planted)

    def __repr__(self):
        LOG.append((self._tag, 'repr', None))
        return f'PySizedIterator(<{len(self.planted)} planted>)'


class PyCollectionIterator(PySizedIterator):
    """One-shot iterator that structurally is a collections.abc.Collection as well (__len__ + __contains__ +
    __iter__): a cursor / result-set object.  iter() of it is itself, so next(iter(obj)) consumes an item."""
    def __contains__(self, x):
        LOG.append((self._tag, 'contains', None))
        return False

    def __repr__(self):
        LOG.append((self._tag, 'repr', None))
        return f'PyCollectionIterator(<{len(self.planted)} planted>)'


class PySizedIterable(PyIterable):
    """Re-iterable with __len__ but without __contains__: not a Collection either."""
    def __len__(self):
        LOG.append((self._tag, 'len', None))
        return len(self._items)


def make_generator(items, tag='generator'):
    """A real generator whose consumption is logged."""
    def g():
        for i in items:
            LOG.append((tag, 'MUTATE:generator-advanced', None))
            yield i
    return g()


class PyGenerator(cabc.Generator):
    """Generator-protocol object logging send/throw/close."""
    def __init__(self, items=(), _tag='PyGenerator'):
        self.planted = list(items)
        self._it = iter(self.planted)
        self._tag = _tag

    def send(self, v):
        LOG.append((self._tag, 'MUTATE:send', None))
        return next(self._it)

    def throw(self, *a):
        LOG.append((self._tag, 'MUTATE:throw', None))
        raise StopIteration

    def close(self):
        LOG.append((self._tag, 'MUTATE:close', None))

    def __repr__(self):
        return f'PyGenerator(<{len(self.planted)} planted>)'

    def drain(self):
        return list(self._it)

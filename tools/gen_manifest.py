#!/usr/bin/env python3
"""Regenerate /verif/MANIFEST.json from the table below (one place to edit)."""
import json
import os
import sys

HERE = os.path.dirname(os.path.dirname(os.path.abspath(__file__)))

CHECKS = {
    'C01': ('reference-model monitor: conforming objects (confirmed by an independent full-depth model of the hint) through six entry points under a swept, harness-controlled sampler draw',
            'trusted: full() in vlib/hints.py; silent about hints/objects/draws never generated', 'runtime monitoring: reference-model oracle + hooked sampler state', 'verdict-engine'),
    'C02': ('reference-model monitor: objects the existential model rules out must be rejected by every entry point under every swept draw; single-bad-item sequences swept over range(len) for index reachability; at most one draw per check',
            'trusted: possible() in vlib/hints.py', 'runtime monitoring: reference-model oracle + exhaustive sweep of the hooked sampler draw', 'verdict-engine'),
    'C03': ('differential monitor over the six entry points under one armed draw: verdict agreement, configured signal class, raised-vs-warned, message names the hint, culprits begin with the object',
            'trusted: classification of outcomes in vlib/engine.py', 'runtime monitoring: N-way differential over recorded outcomes with hooked sampler state', 'verdict-engine'),
    'C04': ('reference-binder monitor: an undecorated twin with the identical signature gives Python\'s own binding; marker-class annotations make "which hint was applied to which value" observable; spy body records identity of arguments and call count',
            'trusted: the twin-function binder and the marker-class scheme', 'runtime monitoring: reference model (Python\'s binder) + spy callable over exhaustive/sampled signatures and call shapes', None),
    'C05': ('the AST beartype compiles is captured at the compile() audit event and compared with the original AST and with an independent restatement of the placement rule; unhooked, hooked and by-hand executions of event-logging programs are compared on their evaluation traces, exception class and line',
            'trusted: my by-hand rewriter (the rule restated) and the tracing program generator', 'runtime monitoring: audit-hook capture + event-log (trace) checker over generated programs', None),
    'C06': ('lock-step history monitor: after every hook operation the registry answer for a query set and the path-hook presence are compared with a declarative model; mismatches are classified by explanatory relaxed models',
            'trusted: the declarative model of the scoping rule', 'runtime monitoring: history checker against a sequential model', None),
    'C07': ('differential monitor: the same generated definition in evaluated, string and postponed form in real module files; per-call verdict traces must coincide; unresolved names must raise the forward-reference family and heal once defined',
            'trusted: the evaluated variant as reference', 'runtime monitoring: 3-way differential over generated modules', None),
    'C08': ('lock-step differential between decorated and undecorated generator / async generator / coroutine objects under generated protocol scripts (next/send/throw/close, anext/asend/athrow/aclose, await) driven without an event loop; outcomes and side-effect logs compared after every operation',
            'trusted: the undecorated object as reference', 'runtime monitoring: lock-step differential over protocol scripts with event logs', None),
    'C09': ('spy containers log every item read; for fixed hint and structure the multiset of spy events is compared across container sizes 1..20000 and bounded per nesting level; non-collection iterables must not be touched',
            'trusted: the spy containers (reads = iteration items + __getitem__)', 'runtime monitoring: spy objects + size-sweep invariance checker', None),
    'C10': ('spy containers and one-shot subjects with planted items; after every check the spy log must stay inside a read-only allowlist, one-shot subjects must still yield exactly the planted items, identity snapshots unchanged',
            'trusted: the spy containers and the allowlist', 'runtime monitoring: spy objects + allowlist / drain-and-compare checker', None),
    'C11': ('exception-taxonomy monitor at the API boundary over a malformed-hint fuzzer; identity monitor for exceptions raised by user code',
            'trusted: origin attribution of warnings by file name', 'runtime monitoring: boundary monitor over fuzzed inputs', None),
    'C12': ('five routes (is_bearable, die_if_unbearable, decorated call, is_valid, diagnosis tree of the message) compared with a recursive boolean evaluator over generated validator expressions',
            'trusted: the boolean evaluator and the diagnosis parser', 'runtime monitoring: reference-model oracle + message-trace parser', None),
    'C13': ('route differential (class decorated vs members decorated by hand) on outcome traces plus identity / metadata assertions and no-op identities incl. a python -O child',
            'trusted: the by-hand route as reference', 'runtime monitoring: differential + invariant assertions over generated classes', None),
    'C14': ('replay monitor: every query of a generated history (run in a forked child of a pristine zygote) must answer as the same query alone in another pristine child',
            'trusted: fork of an import-only process as the pristine state; constant sampler draw', 'runtime monitoring: history replay against fresh-process reference', None),
    'C15': ('controlled scheduler on sys.monitoring LINE events inside beartype: seeded interleavings of 2-3 threads running public operations on fresh hints; results compared with sequential execution, singleton identity, pool-ownership monitor, logical deadlock detection; plus free-running stress',
            'trusted: the cooperative scheduler and scheduler-aware lock shims', 'runtime monitoring: controlled-schedule exploration with invariant hooks', None),
    'C16': ('cross-process histories of interpreter runs over one source tree: behaviour must equal the cold-cache behaviour of the current configuration; every .pyc is unmarshalled and must be "transformed iff marked"; concurrent-import runs with delays injected in the loader\'s patch window',
            'trusted: .pyc decoding by injected names; cold-cache run as reference', 'runtime monitoring: cross-process history checker + file-system monitor + delay injection', None),
    'C17': ('history monitor: every BeartypeConf(**kw) outcome must be the function of its own kwargs given by a documented validity predicate; identity, ==/hash, read-back, **kwargs round trip, threads',
            'trusted: the validity predicate', 'runtime monitoring: history checker against a stateless model', None),
    'C18': ('metamorphic pairs on the verdict engine: option (tower / overrides / violation types) vs hand-rewritten hint under the default configuration',
            'trusted: my structural substitution', 'runtime monitoring: metamorphic differential with hooked sampler state', 'verdict-engine'),
    'C19': ('order-law checker over pools of related hints; soundness witnesses need two accusers (reference model and is_bearable); TypeHint container protocol coherence',
            'trusted: full() for the model accuser', 'runtime monitoring: relation-matrix law checker + witness search', None),
    'C20': ('round-trip monitor is_bearable(x, infer_hint(x)) under a draw sweep over a rich object generator, minimisation to the smallest failing sub-object; bounded termination on self-referential containers by counted function calls',
            'trusted: the minimiser only names mechanisms; the verdict is beartype\'s own', 'runtime monitoring: round-trip oracle with hooked sampler state', None),
}


def main():
    present = sorted(f[:3].upper() for f in os.listdir(os.path.join(HERE, 'workloads')) if f[:1] == 'c' and f[1:3].isdigit())
    checks, na = [], []
    for pid in sorted(CHECKS):
        text, note, tech, engine = CHECKS[pid]
        if pid not in present:
            na.append(dict(property_id=pid, reason='check not built yet in this session (see DESIGN.md §4 for its design)'))
            continue
        c = dict(property_id=pid,
                 quick_cmd=f'python3 verif.py check {pid} --tier quick',
                 thorough_cmd=f'python3 verif.py check {pid} --tier thorough',
                 evidence_file=f'/verif/evidence/{pid}.json',
                 replay_cmd_template=f'python3 verif.py check {pid} --replay {{path}}',
                 level_claimed=dict(category='exploration', text=text + '; "held" means no violation on the executions counted in the evidence file',
                                    design_ref=f'DESIGN.md §4 {pid}'),
                 level_note=note + '; says nothing about inputs, programs, schedules or histories the workload never produced',
                 technique=tech)
        if engine:
            c['engine'] = engine
        checks.append(c)
    man = dict(
        version=1,
        setup_cmd='true',
        hooks=dict(guard='BEARTYPE_VERIF',
                   enable='no source hooks in /repo: every monitor is installed from the harness at run time (random.getrandbits controller installed before beartype is imported, spy objects, sys.monitoring, sys.addaudithook, scheduler-aware lock shims); BEARTYPE_VERIF=1 is exported to workers for completeness only',
                   baseline_off_cmd='python3 /verif/tools/baseline_check.py',
                   source_commits=[], add_only=True),
        engines=[dict(name='verdict-engine', path='vlib/engine.py', serves_properties=['C01', 'C02', 'C03', 'C18'],
                      kind_free_text='one (hint, object, configuration, sampler draw) through all six entry points of beartype under a harness-controlled draw'),
                 dict(name='hint-grammar', path='vlib/hints.py', serves_properties=['C01', 'C02', 'C03', 'C09', 'C10', 'C18', 'C19', 'C20'],
                      kind_free_text='seeded hint grammar with an independent reference semantics (full / possible) and object generators'),
                 dict(name='spies', path='vlib/spies.py', serves_properties=['C09', 'C10'], kind_free_text='containers / iterables logging every method invoked on them')],
        checks=checks, not_applicable=na,
        notes='Driver: verif.py check <ID> [--tier quick|thorough] [--seed N] [--replay F]; exit 0 held / 1 VIOLATION / 2 INCONCLUSIVE. Known findings: known_findings.json (keys name mechanisms). See DESIGN.md.')
    with open(os.path.join(HERE, 'MANIFEST.json'), 'w') as f:
        json.dump(man, f, indent=1)
        f.write('\n')
    print('checks:', [c['property_id'] for c in checks], 'not built:', [n['property_id'] for n in na])


if __name__ == '__main__':
    main()

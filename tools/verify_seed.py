#!/usr/bin/env python3
"""Confirm a seeded change independently and file it under /verif/seeded/<id>/.

  tools/verify_seed.py <seed-id> <property> <dir with patch.diff, demo.py[, notes.md]> [--checks C01,C03]

Steps (all in a scratch worktree outside /repo and /verif, removed afterwards):
  1. fresh worktree of /repo HEAD, `git apply patch.diff`
  2. the pinned test suite: every BASELINE stable_pass test must still pass
  3. demo.py must exit 1 on the changed tree and 0 on /repo
  4. the listed checks (default: the owning property) are run against the changed
     tree through tools/mutant.py --patch (quick tier)
Writes seeded/<id>/{patch.diff,demo.py,notes.md,meta.json}.
"""
import argparse
import json
import os
import shutil
import subprocess
import sys
import tempfile
import xml.etree.ElementTree as ET

HERE = os.path.dirname(os.path.dirname(os.path.abspath(__file__)))
ap = argparse.ArgumentParser()
ap.add_argument('seed_id'); ap.add_argument('prop'); ap.add_argument('src')
ap.add_argument('--checks', default=None)
ap.add_argument('--skip-tests', action='store_true')
ap.add_argument('--budget', default='20')
ap.add_argument('--first-home', default=None, help='frozen checkout of /verif to record the first-contact result with')
a = ap.parse_args()

patch = os.path.join(a.src, 'patch.diff')
demo = os.path.join(a.src, 'demo.py')
wt = tempfile.mkdtemp(prefix='vseed_')
os.rmdir(wt)
meta = dict(seed_id=a.seed_id, breaks_property=a.prop, ran=[])


def sh(cmd, **kw):
    meta['ran'].append(cmd if isinstance(cmd, str) else ' '.join(cmd))
    return subprocess.run(cmd, shell=isinstance(cmd, str), capture_output=True, text=True, **kw)


try:
    r = sh(f'git -C /repo worktree add -q --detach {wt} HEAD')
    assert r.returncode == 0, r.stderr
    r = sh(f'git -C {wt} apply {patch}')
    meta['patch_applies'] = r.returncode == 0
    if r.returncode:
        print('patch does not apply:', r.stderr[:500])
        sys.exit(2)
    meta['changed_files'] = sh(f'git -C {wt} diff --stat').stdout.strip().splitlines()
    # ---- tests ---------------------------------------------------------------------------
    if not a.skip_tests:
        base = json.load(open('/root/.vp/BASELINE.json'))
        junit = os.path.join(tempfile.gettempdir(), f'vseed_{a.seed_id}.xml')
        env = dict(os.environ)
        env.pop('BEARTYPE_VERIF', None)
        r = sh(['/venv/bin/python', '-m', 'pytest', '-q', '-p', 'no:cacheprovider', '--timeout=900',
                '--continue-on-collection-errors', f'--junitxml={junit}'], cwd=wt, env=env)
        passed = set()
        for tc in ET.parse(junit).getroot().iter('testcase'):
            if not any(ch.tag in ('failure', 'error', 'skipped') for ch in tc):
                passed.add(f"{tc.get('classname')}::{tc.get('name')}")
        missing = [t for t in base['stable_pass'] if t not in passed]
        meta['tests'] = dict(stable_pass=len(base['stable_pass']), still_passing=len(base['stable_pass']) - len(missing),
                             no_longer_passing=missing[:10], tail=r.stdout.strip().splitlines()[-1:] )
        os.remove(junit)
    else:
        # re-check of an already filed seed: keep the recorded suite result
        prev = os.path.join(HERE, 'seeded', a.seed_id, 'meta.json')
        if os.path.exists(prev):
            old = json.load(open(prev))
            if 'tests' in old:
                meta['tests'] = old['tests']
            if 'first_contact' in old and not a.first_home:
                meta['first_contact'] = old['first_contact']      # what the checks said before they were strengthened
                meta['ran'].insert(3, '(pinned suite not re-run: result kept from the first confirmation of this seed)')
    # ---- demo ------------------------------------------------------------------------------
    r1 = sh(['/venv/bin/python', '-B', demo, wt], timeout=900)
    r0 = sh(['/venv/bin/python', '-B', demo, '/repo'], timeout=900)
    meta['demo'] = dict(on_changed_tree=dict(exit=r1.returncode, last=(r1.stdout.strip().splitlines() or [''])[-1][:300]),
                        on_repo=dict(exit=r0.returncode, last=(r0.stdout.strip().splitlines() or [''])[-1][:300]))
    # ---- our checks -----------------------------------------------------------------------------
    checks = (a.checks or a.prop).split(',')
    meta['checks'] = {}
    homes = [('checks', None)]
    if a.first_home:
        # a frozen checkout of /verif as it was before this seed was looked at: what the checks said at first contact
        homes.insert(0, ('first_contact', a.first_home))
        meta['first_contact'] = {'verif_commit': sh(f'git -C {a.first_home} rev-parse --short HEAD').stdout.strip()}
    for slot, home in homes:
        for c in checks:
            env = dict(os.environ, VERIF_HOME=home) if home else None
            r = sh([sys.executable, os.path.join(HERE, 'tools', 'mutant.py'), c, '--patch', patch, '--budget', a.budget], timeout=3000,
                   **({'env': env} if env else {}))
            lines = r.stdout.strip().splitlines()
            verdict = lines[-1] if lines else 'no output'
            keys = sorted({l.split('key=', 1)[1].split(' ', 1)[0] for l in lines if 'key=' in l})
            meta[slot][c] = dict(result=verdict.split('=> ')[-1], unlisted_keys=keys[:12])
finally:
    subprocess.run(f'git -C /repo worktree remove --force {wt}', shell=True, capture_output=True)
    shutil.rmtree(wt, ignore_errors=True)

ok = meta.get('patch_applies') and meta['demo']['on_changed_tree']['exit'] == 1 and meta['demo']['on_repo']['exit'] == 0 \
    and (a.skip_tests or not meta['tests']['no_longer_passing'])
meta['confirmed'] = bool(ok)
out = os.path.join(HERE, 'seeded', a.seed_id)
if ok:
    os.makedirs(out, exist_ok=True)
    if os.path.abspath(a.src) != os.path.abspath(out):
        shutil.copy(patch, os.path.join(out, 'patch.diff'))
        shutil.copy(demo, os.path.join(out, 'demo.py'))
    if os.path.exists(os.path.join(a.src, 'notes.md')):
        if os.path.abspath(a.src) != os.path.abspath(out):
            shutil.copy(os.path.join(a.src, 'notes.md'), os.path.join(out, 'notes.md'))
        meta['needs_to_manifest'] = 'see notes.md (author\'s description of the trigger)'
    with open(os.path.join(out, 'meta.json'), 'w') as f:
        json.dump(meta, f, indent=1)
print(json.dumps({k: meta[k] for k in ('confirmed', 'tests', 'demo', 'first_contact', 'checks') if k in meta}, indent=1)[:3000])

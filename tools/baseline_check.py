#!/usr/bin/env python3
"""Run the repository's pinned test suite with the verification guard OFF and
compare with /root/.vp/BASELINE.json: every stable_pass test must still pass."""
import json, os, subprocess, sys, tempfile, xml.etree.ElementTree as ET

base = json.load(open('/root/.vp/BASELINE.json'))
out = tempfile.mkdtemp(prefix='vbase_')
junit = os.path.join(out, 'junit.xml')
env = dict(os.environ)
env.pop('BEARTYPE_VERIF', None)
cmd = ['/venv/bin/python', '-m', 'pytest', '-ra', '-q', '-p', 'no:cacheprovider', '--timeout=900',
       '--continue-on-collection-errors', f'--junitxml={junit}']
p = subprocess.run(cmd, cwd='/repo', env=env, stdout=subprocess.PIPE, stderr=subprocess.STDOUT, text=True)
passed = set()
for tc in ET.parse(junit).getroot().iter('testcase'):
    if not any(ch.tag in ('failure', 'error', 'skipped') for ch in tc):
        passed.add(f"{tc.get('classname')}::{tc.get('name')}")
missing = [t for t in base['stable_pass'] if t not in passed]
print(p.stdout[-1500:])
print(f'baseline stable_pass={len(base["stable_pass"])} still passing={len(base["stable_pass"]) - len(missing)}')
for t in missing:
    print('NO LONGER PASSING:', t)
import shutil; shutil.rmtree(out, ignore_errors=True)
sys.exit(1 if missing else 0)

#!/usr/bin/env python3
"""Seeded-breakage trial: copy /repo/beartype to a scratch dir, apply one textual
edit, run a check against the copy (VERIF_REPO), report, and remove the copy.

  tools/mutant.py C02 beartype/_data/check/code/pep/datacodepep484585.py 'OLD' 'NEW' [--tier quick] [--budget 15]
"""
import argparse, os, shutil, subprocess, sys, tempfile
ap = argparse.ArgumentParser()
ap.add_argument('prop'); ap.add_argument('file'); ap.add_argument('old'); ap.add_argument('new')
ap.add_argument('--tier', default='quick'); ap.add_argument('--budget', default='15')
ap.add_argument('--count', type=int, default=1)
a = ap.parse_args()
d = tempfile.mkdtemp(prefix='vmut_')
try:
    shutil.copytree('/repo/beartype', os.path.join(d, 'beartype'), ignore=shutil.ignore_patterns('__pycache__'))
    p = os.path.join(d, a.file)
    s = open(p).read()
    old = a.old.encode().decode('unicode_escape'); new = a.new.encode().decode('unicode_escape')
    if s.count(old) < 1:
        sys.exit(f'pattern not found in {a.file}')
    s = s.replace(old, new, a.count)
    open(p, 'w').write(s)
    env = dict(os.environ, VERIF_REPO=d, VERIF_BUDGET=a.budget, VERIF_NO_EVIDENCE='1')
    r = subprocess.run([sys.executable, '/verif/verif.py', 'check', a.prop, '--tier', a.tier], env=env,
                       stdout=subprocess.PIPE, stderr=subprocess.STDOUT, text=True)
    lines = r.stdout.splitlines()
    for l in lines:
        if l.startswith(('VIOLATION', 'INCONCLUSIVE', '  key=')) or l.startswith(a.prop):
            print(l[:400])
    print('exit', r.returncode, '=> ' + ('CAUGHT' if r.returncode == 1 else 'MISSED' if r.returncode == 0 else 'INCONCLUSIVE'))
finally:
    shutil.rmtree(d, ignore_errors=True)

#!/usr/bin/env python3
"""Seeded-breakage trial: copy /repo/beartype to a scratch dir, apply textual
edits (or a patch file), run a check against the copy (VERIF_REPO), report, and
remove the copy.

  tools/mutant.py C02 --edit FILE OLD NEW [--edit FILE OLD NEW ...] [--patch P] [--tier quick] [--budget 15]
  (legacy)  tools/mutant.py C02 FILE OLD NEW
"""
import argparse, os, shutil, subprocess, sys, tempfile
ap = argparse.ArgumentParser()
ap.add_argument('prop'); ap.add_argument('legacy', nargs='*')
ap.add_argument('--edit', nargs=3, action='append', default=[])
ap.add_argument('--patch')
ap.add_argument('--tier', default='quick'); ap.add_argument('--budget', default='15')
ap.add_argument('--seed', default='0')
a = ap.parse_args()
if a.legacy:
    a.edit.append(a.legacy)
d = tempfile.mkdtemp(prefix='vmut_')
try:
    shutil.copytree('/repo/beartype', os.path.join(d, 'beartype'), ignore=shutil.ignore_patterns('__pycache__'))
    for f, old, new in a.edit:
        p = os.path.join(d, f)
        s = open(p).read()
        old = old.encode().decode('unicode_escape'); new = new.encode().decode('unicode_escape')
        if s.count(old) < 1:
            sys.exit(f'pattern not found in {f}: {old!r}')
        open(p, 'w').write(s.replace(old, new))
    if a.patch:
        r = subprocess.run(['patch', '-p1', '-d', d, '-i', os.path.abspath(a.patch)], capture_output=True, text=True)
        if r.returncode:
            sys.exit('patch failed: ' + r.stdout + r.stderr)
    env = dict(os.environ, VERIF_REPO=d, VERIF_BUDGET=a.budget, VERIF_NO_EVIDENCE='1', VERIF_SEED=a.seed)
    # VERIF_HOME: another checkout of /verif (e.g. a frozen earlier commit, to record what the checks said *before*
    # they were strengthened for a seeded change)
    home = os.environ.get('VERIF_HOME') or os.path.dirname(os.path.dirname(os.path.abspath(__file__)))
    r = subprocess.run([sys.executable, os.path.join(home, 'verif.py'), 'check', a.prop, '--tier', a.tier], env=env,
                       stdout=subprocess.PIPE, stderr=subprocess.STDOUT, text=True)
    for l in r.stdout.splitlines():
        if l.startswith(('VIOLATION', 'INCONCLUSIVE', '  key=')) or l.startswith(a.prop):
            print(l[:400])
    print('exit', r.returncode, '=> ' + ('CAUGHT' if r.returncode == 1 else 'MISSED' if r.returncode == 0 else 'INCONCLUSIVE'))
finally:
    shutil.rmtree(d, ignore_errors=True)

#!/usr/bin/env python3
'''
Regenerates /verif/seeded/README.md (and the needs_to_manifest line of every
seeded/<id>/meta.json) from the meta.json files written by tools/verify_seed.py
and the one-line trigger descriptions below (condensed from each author's
notes.md after the change was confirmed).

  tools/seed_table.py
'''
import json, os, sys

HERE = os.path.dirname(os.path.abspath(__file__))
SEEDED = os.path.join(os.path.dirname(HERE), 'seeded')

# seed id -> (changed site, what is needed for the violation to show)
TRIGGERS = {
 'S-C01': ('codepep484604union.py: flattened child unions get a sanified-'
           'metadata tuple of the wrong length',
           'a union with k direct members one of which reduces (PEP 695 alias, '
           'hint_overrides) to a union with more than k members; objects '
           'matching only the trailing members are rejected'),
 'S-C02': ('datacodepep484585.py: the "item was localised" identity test is '
           'moved around the whole walrus disjunction in the quasi-iterable '
           'template',
           'a quasi-iterable hint (Iterable/Container/Reversible[T]) whose '
           'sampled item is falsy ("" , 0, ()) - the violating falsy item is '
           'accepted, and the diagnosis then cannot find a culprit'),
 'S-C03': ('errormain/conf: the return-violation warning test reads '
           'violation_param_type',
           'a decorated callable whose return is rejected under a conf in '
           'which exactly one of violation_param_type / violation_return_type '
           'is a Warning subclass'),
 'S-C04': ('decorator argument loop: keywordable names are collected only '
           'for annotated parameters',
           'annotated **kwargs + an unannotated flexible/keyword-only '
           'parameter passed by keyword with a value violating the **kwargs '
           'hint'),
 'S-C05': ('clawastmain.py visit_ClassDef: a class nested directly in a class '
           'body is no longer decorated by the hook ("the outer decorator '
           'covers it")',
           'a nested class used before / outside the outer decoration: called '
           'while the outer body still runs, or removed from the outer '
           'namespace; the hooked module accepts what the hand-decorated one '
           'rejects'),
 'S-C06': ('clawpkgtrie.py: blacklist walk tests "not subtrie" instead of '
           '"is the terminal marker"',
           'a history that skips a package and afterwards a dotted descendant '
           'of an already skipped package (parent-then-child order)'),
 'S-C07': ('fwdreffake.py _is_fake_proxy_superclass: MRO length guard >= 3 '
           'becomes > 3',
           'string annotation naming a local class defined later in the '
           'enclosing function, first checked after that function returned, '
           'object = instance of a direct single-inheritance subclass: string '
           'form rejects, evaluated form accepts'),
 'S-C11': ('redmain.py _reduce_hint_overrides: dict lookup hoisted out of the '
           'try/except TypeError behind a "no overrides" fast path',
           'non-empty hint_overrides (e.g. is_pep484_tower=True) + an '
           'unhashable root hint (Annotated[int, [1]], [int], P.args): bare '
           'TypeError leaks from every entry point'),
 'S-C13': ('decortype.py: nested-class test compares the qualname prefix '
           'without the trailing dot',
           'a decorated class with a class attribute holding a foreign class '
           'whose qualname merely starts with the same characters '
           '(Token / TokenStream): the foreign class is wrapped in place'),
 'S-C14': ('hinttreecode.py sanify_hint_child: the running "cacheable" flag is '
           'reassigned from parent and child instead of and-ed',
           'a context-dependent child (relative forward reference string, '
           'typing.Self) sanified before a cacheable sibling (tuple["Node", '
           'int], tuple[Self, int]) and then an equal hint queried from '
           'another scope / class: it gets the first scope\'s checker'),
 'S-C15': ('codepep484604union.py: the pooled dict hint_childs_nonpep is '
           'released before its last use (its truthiness picks the walrus '
           'form)',
           'thread A generating a nested union with only PEP children, '
           'preempted between the early release and the loop, thread B '
           'generating a union with a plain-class child in that window: A '
           'emits code reading a stale variable (wrong verdicts or NameError, '
           'memoised)'),
 'S-C16': ('clawimpcache.py optimisation marker: the "f" field is built from '
           'claw_decor_place_type instead of claw_decor_place_func',
           'two runs over the same sources under non-default hook confs that '
           'differ only in claw_decor_place_func: the second reuses the '
           'first one\'s bytecode'),
 'S-C17': ('confmain.py BeartypeConf.__new__: the second memo lookup uses the '
           'raw instead of the sanified arguments',
           'one effective configuration requested through two spellings '
           '(kwargs round trip, explicit default, tower with/without its '
           'overrides): two unequal objects, the memo entry is overwritten'),
 'S-C18': ('codepep484604union.py: same line as S-C01 (written independently '
           'for C18)',
           'a hint overridden with a union wider than the union it is a '
           'direct member of (Optional[A] with {A: str|bytes|bytearray})'),
 'S-C19': ('doormeta.py: TypeHint singleton cache keyed by repr() for '
           'non-class hints',
           'two distinct hints that print alike (same-named TypeVars with '
           'different bounds, same-named NewTypes, List[Rec] over factory '
           'classes) wrapped one after the other: the second gets the '
           'first\'s wrapper; unsound and order-dependent answers'),
 'S-C20': ('infercollectionitems.py: items already "seen" (by == / hash) are '
           'skipped when inferring a reiterable\'s item union',
           'a list / deque / long tuple holding equal items of different '
           'types ([1, 1.0], [True, 1]): the inferred hint rejects the '
           'object'),
 # ---- round 2: same properties, authors told to stay away from the file of round 1
 'S2-C01': ('redpep484612646typearg.py: TypeVar lookup tables merged with the '
            'operands of | swapped (parent wins)',
            'a subscripted user generic with >= 2 type parameters one of whose '
            'arguments is another generic subscripted over the same TypeVar '
            '(Table[str, Bag[int]], Bag(list[T])): conforming objects '
            'rejected'),
 'S2-C02': ('redpep484612646typearg.py: fallback of a multi-hop TypeVar '
            'lookup returns the first variable instead of the last',
            'an unsubscripted subclass of a generic subscripted by bounded '
            'TypeVars (Scores(Table[IntT, StrT])): the bound is never checked, '
            'Scores({"a": 1}) accepted under every draw'),
 'S2-C03': ('logcls.py: cause finder of quasi-iterables re-selects item 0 '
            'instead of the sampled item',
            'Iterable/Container/Reversible[T] + a sequence whose item 0 is '
            'valid and a later, sampled item is not: the rejection surfaces '
            'as the private desynchronisation exception'),
 'S2-C04': ('utilfuncwrap.py is_func_wrapper_isomorphic: counts flexible '
            'instead of all non-variadic parameters (keyword-only ignored)',
            '@beartype over a functools.wraps closure (*args, own_kwonly=..., '
            '**kwargs): treated as pass-through, the call is checked against '
            'the wrappee and the closure\'s own keyword is rejected'),
 'S2-C05': ('clawimpcache.py marker: field "t" built from '
            'claw_decor_place_func',
            'two interpreter runs over one source tree under non-default hook '
            'confs differing only in claw_decor_place_type, and a class whose '
            'decorator order matters: the second run reuses the first .pyc'),
 'S2-C06': ('clawpkgmain.py _blacklist_packages: "not in" became a falsy test '
            '(the fully-skipped marker is an empty dict)',
            'skipping a dotted descendant of an already skipped package '
            'un-skips the ancestor'),
 'S2-C07': ('fwdscopemake.py: class locals taken from the root instead of the '
            'current class',
            'decorated class with a nested class whose methods use string '
            'hints naming an attribute of the nested class body'),
 'S2-C08': ('calldatadecorfunc.py: coroutine/generator kind read from the '
            'unwrapped function\'s code object',
            '@beartype over a functools.wraps (*args, **kwargs) closure whose '
            'kind differs from the function it wraps (async closure over a '
            'plain function ...): the wrapper takes the inner kind'),
 'S2-C09': ('fwdrefmeta.py: the describing hook of reference proxies uses the '
            'O(n) configuration',
            'a string forward reference to a non-class hint + a rejected call '
            '+ a large conforming container visited before the culprit'),
 'S2-C10': ('datacodepep525.py: asend() branch chosen by truthiness instead '
            'of "is None"',
            'asend() of a falsy non-None object into a decorated async '
            'generator: the body receives None'),
 # ---- round 3: authors told to stay away from the files of rounds 1 and 2
 'S3-C01': ('redmain.py _reduce_hint_overrides: overrides skipped for hints '
            'reached through another reduction',
            'tower / hint_overrides={float: ...} + a hint that only reduces to '
            'float (NewType over float, TypeVar bound float, Annotated[float, '
            '"m"]) + an int: rejected'),
 'S3-C02': ('checkpep484585generic.py: the stack of pending generic bases is '
            'rebound instead of extended',
            'a user generic with several bases, a constraining builtin generic '
            'before another user-defined generic (class Ints(list[int], '
            'Marked)): no item check generated, every violating item accepted'),
 'S3-C03': ('errpep484585mapping.py: early "satisfied" when every child hint '
            'is ignorable (Counter has an implicit int value hint)',
            'Counter[Any] / Counter[object] + a Counter whose first value is '
            'not an int: desynchronisation exception instead of the violation'),
 'S3-C04': ('utilfuncargiter.py iter_func_args: wrong start index after the '
            'mandatory flexible block',
            'a signature with positional-only, then mandatory flexible, then '
            'further parameters: later names read shifted, values unchecked or '
            'checked against a neighbour\'s hint'),
 'S3-C05': ('clawastassign.py: import-tracking of annotated assignments moved '
            'behind the "nothing to check" early return',
            'app: Celery = factory() under claw_is_pep526=False (or a bare '
            'app: Celery then app = ...) + @app.task: @beartype lands above '
            'the decorator-hostile decorator'),
 'S3-C06': ('clawpkgcontext.py: beartyping() exit removes the path hook '
            'unconditionally if it installed it',
            'nothing registered on entry, a package registered inside the '
            'block: registered but the hook is gone after the block'),
 'S3-C07': ('fwdrefmeta.py: referent caches keyed by (scope name, hint name) '
            'instead of the proxy',
            'a closure factory invoked twice, the closure called while the '
            'factory still runs: the second closure checks against the first '
            'invocation\'s local class'),
 'S3-C08': ('datacodepep484.py: NoReturn template lost the call prefix '
            '(await)',
            'a coroutine function annotated NoReturn / Never (or '
            'Coroutine[..., NoReturn]) that is actually awaited: the body '
            'never runs, a return violation is raised for the coroutine '
            'object'),
 'S3-C09': ('errpep484585mapping.py: break one level too deep - all pairs '
            'visited when the value hint is ignorable',
            'a conforming dict[str, Any] / Mapping[str, object] beside the '
            'real culprit on the describing path: reads every key'),
 'S3-C10': ('datahintsignset.py: Iterator added to the quasi-iterable signs',
            'Iterator[T] + an iterator that structurally is a Collection '
            '(__len__ + __contains__): one item consumed per check'),
 # ---- round 4: authors told to stay away from the files of rounds 1-3
 'S4-C01': ('_valecorebinary.py: A & B code lost its outer parentheses (the '
            'superclass heuristic takes "(a) and (b)" for wrapped)',
            'a negated conjunction ~(A & B): (not a) and b; same mechanism as '
            'S-C12, written independently for C01'),
 'S4-C02': ('datahintsignset.py: MutableSequence filed under the reiterable '
            'signs (item 0 only) instead of the sequence signs',
            'MutableSequence[T] and an object whose only violating item is at '
            'index >= 1: accepted under every draw'),
 'S4-C03': ('_valeisobj.py: IsAttr temporary named after the attribute only '
            '(same mechanism as S2-C12, written for C03)',
            'IsAttr[n, IsAttr[n, X] & Y]: Y evaluated on obj.n.n; rejections '
            'surface as the desynchronisation exception'),
 'S4-C04': ('decorstandard.py: lru_cache re-applied from cache_info() '
            '(typed= lost)',
            '@beartype above @functools.lru_cache(typed=True) then equal '
            'values of another type (2 then 2.0): served from the cache '
            'unchecked'),
 'S4-C05': ('utilasttest.py is_node_callable_typed: early False when args and '
            'kwonlyargs are empty (positional-only ignored)',
            'a function whose only annotations sit on positional-only '
            'parameters, no return hint: the hook leaves it undecorated'),
 'S4-C06': ('_clawpkgmake.py make_conf_hookable: tests "is None" instead of '
            'the is-set flag',
            'a registration whose conf passes '
            'warning_cls_on_decorator_exception=None explicitly: coerced to '
            'the hook default'),
 'S4-C07': ('redpep484ref.py: reuses the value typing memoised on a shared '
            'ForwardRef',
            'Optional["X"] / List["X"] in a module imported twice (or two '
            'scopes) with typing.get_type_hints() called on the first copy: '
            'the second copy checks against the first copy\'s class'),
 'S4-C08': ('convmain.py: Coroutine[...] return reduction decided from the '
            'unwrapped callable',
            'async wraps closure over a plain factory annotated '
            'Coroutine[None, None, int]: every valid await raises a return '
            'violation'),
 'S4-C09': ('datacodepep484585.py: quasi-iterable guard "not a Collection" '
            'became "has no __len__"',
            'a sized non-collection iterable under Iterable[T]: next(iter()) '
            'runs on it'),
 'S4-C10': ('datacodefuncwrap.py: "was the keyword-only argument passed" '
            'tested with != instead of "is not"',
            'an object with __eq__/__ne__ passed through a keyword-only '
            'parameter: its comparison dunder runs on every call'),
 'S4-C11': ('checkpep484typevar.py: TypeVar-bound validation calls issubclass() '
            'on any class bound',
            'a generic subscripted by a class where the TypeVar is bounded by a '
            'runtime-checkable protocol with a data member: bare TypeError '
            '("Protocols with non-method members don\'t support '
            'issubclass()")'),
 'S4-C12': ('codemain.py: "is the pith an identifier" replaced by an identity '
            'test between two expressions',
            'Annotated[object, IsEqual[..] ...] as first member of a union of '
            'Annotated members only, below a container: the pith variable is '
            'rebound to the comparison\'s boolean'),
 'S4-C13': ('redpep673.py: typing.Self resolves to cls_stack[0] (outermost '
            'class)',
            'a method returning Self in a class nested in a decorated class, '
            'decorated through the outer class'),
 'S4-C14': ('utilcacheclear.py: clear_caches() no longer clears the resolved-'
            'type table of reference proxies',
            'a long-lived callable annotated type["mod.W"], called, then the '
            'decorated class W hot-reloaded: the current class is rejected'),
 'S4-C15': ('clawpkgmain.py: the skip-list update moved out of claw_lock',
            'two threads registering packages whose skip names share a parent '
            'that is not in the trie yet, preempted between test and store: a '
            'skip entry is lost'),
 'S4-C16': ('clawastscopebefore.py: the module-scope beforelist map is stored '
            'on the process-wide object',
            'module A importing a beforelisted decorator compiled before '
            'module B that uses an unrelated decorator of the same name, in '
            'one process; B\'s shape is then cached'),
 'S4-C17': ('_confoverrides.py: the complex-override conflict test hangs on '
            '"a float override exists"',
            'is_pep484_tower=True + hint_overrides {float: float|int, '
            'complex: str}: accepted, memoised under the tower singleton'),
 'S4-C18': ('redpep484604union.py: class members of a union inside '
            'type[...] keep their unreduced form',
            'type[float | str] (any depth) under the tower / an override of a '
            'member: the rewrite is lost inside type[...]'),
 'S4-C19': ('doorpep586.py: Literal membership scan returns at the first '
            '==-equal object',
            'literals listing ==-equal objects of different types '
            '(Literal[0, False]): not reflexive, not equal to themselves'),
 'S4-C20': ('datacodepep484585.py: the value-only mapping template bound to '
            'the key-only one',
            'a mapping hint with ignorable key and checked value '
            '(dict[object, str]): the first KEY is checked against the value '
            'hint'),
 'S5-C01': ('hinttreecode.py sanify_hint_child: the tree\'s "cacheable" flag is '
            'recomputed from the parent hint instead of accumulated (last '
            'child sanified decides)',
            'a hint with a relative forward reference / typing.Self that is '
            'not the last child sanified (tuple[\'Node\', int], dict[Self, '
            'str]) used from a second scope after an equal hint was checked '
            'from a first one: the second scope is checked against the first '
            'scope\'s class'),
 'S5-C02': ('_valecorebinary.py: A | B code lost its outer parentheses',
            'a disjunction of validators beside another validator or under '
            'negation: "a or b and c" accepts what no path allows'),
 'S5-C03': ('hinttreeerror.py: the error-path child sanifier no longer '
            'defaults the parent metadata (TypeVar bindings lost)',
            'a user generic whose pseudo-superclass constrains classes by '
            'its TypeVar (class ClassList(list[type[T]])) subscripted and '
            'violated: the explanation finds nothing wrong -> '
            'desynchronisation exception instead of the violation'),
 'S5-C04': ('calldatadecorfunc.py: the code object deciding the wrapper kind is '
            'taken from the unwrapped (innermost) function',
            'a functools.wraps closure whose kind differs from its wrappee '
            '(async adapter around a plain function, blocking runner around '
            'a coroutine function): wrong kind of wrapper, calls return '
            'unstarted coroutines / raise return violations'),
 'S5-C05': ('clawastscopes.py: a nested scope inherits the beforelist of the '
            'module scope instead of the enclosing scope',
            'a decorator-hostile decorator bound inside a function (import '
            'or assignment in the function body) and applied to a def nested '
            'one level deeper: @beartype lands above it'),
 'S5-C06': ('confmain.py + decornontype.py: BeartypeConf gains __bool__ '
            '(False for strategy O0)',
            'beartype_package(sub, conf=O0) below an ancestor registered '
            'with a checking configuration: "conf or inherited" lookups '
            'answer the ancestor\'s configuration'),
 'S5-C07': ('fwdresolve.py: "is this name one of the enclosing scopes" became '
            'a substring test on the dotted scope name',
            'a stringified annotation whose text is a substring of the '
            'qualified name of the decorated callable (def use_Row_now(r: '
            '\'Row\')): resolved as a self-reference, exception at call'),
 'S5-C08': ('pep484585func.py: the "hint is object" guard removed from the '
            'generator / async generator return validation',
            'a generator or async generator function annotated -> object '
            '(or \'object\'): decoration raises'),
 'S5-C09': ('codepep484604union.py: a union member\'s check embeds the pith '
            'expression instead of the pith variable',
            'a union with >= 2 container members below a container: every '
            'member re-evaluates the item access (reads grow with the number '
            'of members tried)'),
 'S5-C10': ('clawastassign.py: the check added after "owner.attr: T = value" '
            're-evaluates the value expression when owner is not a bare name',
            'hooked module, annotated assignment to x.y.attr / xs[0].attr '
            'with a right-hand side that is not idempotent (next(it), a '
            'factory): evaluated twice, one item lost'),
 'S5-C11': ('utilmaptest.py: the fast-path collision test of two scopes uses '
            '!= instead of "is not"',
            'a validator operand not equal to itself (IsEqual[nan]) reaching '
            'one generated scope twice (two parameters, tuple[A, A]): the '
            'private _BeartypeUtilMappingException leaks'),
 'S5-C12': ('datacodepep593.py: the always-true walrus test of the validator '
            'pith compares with == instead of is',
            'Annotated[object, V...] at a non-root position and an item not '
            'equal to itself (nan): rejected before any validator runs'),
 'S5-C13': ('decornontype.py: the wrapper is built around '
            'func_wrappee_wrappee instead of func_wrapper',
            'a class member (or function) that is itself a functools.wraps '
            'closure: __wrapped__, __doc__, __dict__ come from the innermost '
            'function'),
 'S5-C14': ('redpep484ref.py: module-qualified ForwardRef objects marked '
            'cacheable',
            'ForwardRef(\'K\', module=m) checked, m.K rebound to a new class '
            'of the same name (no decoration in between), same query again: '
            'new instances rejected, old ones accepted'),
 'S5-C15': ('utilcachepoolinstance.py: release_instance() clears builtin '
            'containers after handing them back to the pool, outside the lock',
            'two threads and a switch between the pool append and the clear: '
            'the next holder\'s scratch container is wiped mid-use (wrong '
            'checker memoised)'),
 'S5-C16': ('clawastimport.py: is_pep557_fields turns class placement FIRST '
            'into LAST (the cache marker does not know the option)',
            'two interpreter runs with claw_decor_place_type=FIRST differing '
            'in is_pep557_fields only, over a module with a decorated class: '
            'the second run reuses the first one\'s bytecode'),
 'S5-C17': ('decortypepep557.py: conf.kwargs no longer copied before the '
            'field-violation path writes violation_door_type into it',
            'a configuration with is_pep557_fields=True used on a dataclass '
            'and one rejected field assignment: conf.kwargs changes, the '
            'round trip gives another object'),
 'S5-C18': ('_redrecurse.py: the recursion guard of a root hint starts at depth '
            '0 instead of 1',
            'a self-referential override whose value mentions its key below '
            'a container ({int: int | list[int]}) and the key as root hint: '
            'expanded twice ([[1]] accepted)'),
 'S5-C19': ('doorpep593.py: AnnotatedTypeHint._is_args_ignorable override '
            'removed',
            'a superhint Annotated[object, validator]: every subhint test '
            'compares origins only and ignores the validator '
            '(is_subhint(int, Annotated[object, Is[...]]) is True)'),
 'S5-C20': ('_infermain.py: the recursion guard applies to exact builtin '
            'mutable containers only',
            'a self-referential deque / OrderedDict / list subclass / '
            'user-defined MutableSequence: RecursionError instead of the '
            'recursion warning'),
 'S6-C01': ('datacodepep586.py: the per-member Literal test emitted as "is" '
            'instead of "=="',
            'a Literal[...] hint and a conforming value that is equal to but '
            'not the same object as the member (ints beyond the small-int '
            'cache, bytes, strings built at run time): rejected, then the '
            'explanation (still ==) finds nothing'),
 'S6-C02': ('redpep646tuple.py: "list is not None" became "list" in the '
            'PEP 646 tuple reducer',
            'tuple[*tuple[A, B], C, ...] - an unpacked fixed tuple as FIRST '
            'of several children: reduced to bare tuple, any tuple accepted'),
 'S6-C03': ('doormeta.py: TypeHint wrappers cached under repr(hint)',
            'two distinct hints printing alike (classes from a factory, '
            'same-named TypeVars / NewTypes) wrapped one after the other: '
            'TypeHint(B) is the wrapper of A, the object-oriented entry '
            'points disagree with the functional ones'),
 'S6-C04': ('datacodefuncwrap.py: positional-only parameters fall back to '
            'kwargs.get(name)',
            'def f(a: int = 0, /, **kw: str) called f(a=\'s\'): the keyword '
            'belongs to **kw, the wrapper checks it against a\'s hint'),
 'S6-C05': ('clawastimport.py: LAST_BEFORE_DECOR_HOSTILE inserts at the index '
            'of the last decorator instead of the current one',
            'module importing a beforelisted package and a function with >= '
            '2 ordinary decorators: @beartype lands between them'),
 'S6-C06': ('_clawimpfileloader.py: module_name_to_beartype_conf filled with '
            'setdefault()',
            'a module imported under configuration A, registrations changed, '
            'module imported again: compiled and checked under A still (the '
            'registry answers are right, only real imports show it)'),
 'S6-C07': ('hinttreecode.py: "&=" on the cacheable flag became "="',
            'dict[\'Key\', int]-like hint text used from a second scope '
            '(second call of a closure factory) where Key is another class'),
 'S6-C08': ('utilfunctest.py: is_func_coro() unwraps __wrapped__',
            'async def wraps-adapter around a plain function annotated '
            '-> Coroutine[None, None, int]: awaited value checked against '
            'Coroutine[...]'),
 'S6-C09': ('errpep484585container.py: with random_int None the cause finder '
            'walks every item',
            'rejecting path, no random integer (sets / is_random=False), a '
            'conforming container next to the culprit: n+1 reads'),
 'S6-C10': ('datacodepep484585.py: the mapping emptiness guard "not len(x)" '
            'became "not x"',
            'a mapping hint and a subject whose class defines __bool__: the '
            'check runs it (raising __bool__ escapes, falsy non-empty '
            'mappings are not looked into)'),
 'S6-C11': ('fwdrefmeta.py: the resolved referent type is cached before it is '
            'validated',
            'type[\'Name\'] where Name resolves at call time to a hint that '
            'is no class, called twice with a class: the second call leaks '
            'TypeError from issubclass()'),
 'S6-C12': ('_valeisoper.py: IsEqual.is_valid gains an identity fast path',
            'the checked object is the operand itself and is not equal to '
            'itself: is_valid() True, generated code False'),
 'S6-C13': ('utilfuncmake.py: update_wrapper() inlined with __wrapped__ set '
            'before the __dict__ update',
            'the decorated callable is itself a wraps closure: __wrapped__ '
            'names the innermost function'),
 'S6-C14': ('fwdrefmeta.py: the eviction of a failed referent guarded by '
            'membership in the wrong table',
            'callable decorated before the name exists, first called while '
            'the name is bound to a non-hint placeholder, then after it was '
            'bound to the class: keeps failing'),
 'S6-C15': ('codescope.py: the two pooled scratch lists released before the '
            'tuple is built from them',
            'a union / type tuple with an unresolved forward reference and a '
            'second thread acquiring a list in between: the other thread\'s '
            'classes end up in the isinstance tuple'),
 'S6-C16': ('clawastmain.py: no decorator injected under strategy O0 (cache '
            'marker unaware of the strategy)',
            'run 1 hooks with strategy O0, run 2 with a checking '
            'configuration of the same placement options: run 2 reuses '
            'decorator-less bytecode'),
 'S6-C17': ('_confget.py: is_color normalisation moved behind callable_cached '
            '(keyed by ==/hash)',
            'BeartypeConf(is_color=True) then BeartypeConf(is_color=1) (or '
            'the other way round): the look-alike gets the first one\'s '
            'outcome'),
 'S6-C18': ('hintsane.py: the recursion guard left out of HintSane hash / eq',
            'override {A: B} with B containing A, and the same configuration '
            'meeting both A and a hand-written B: the first cached form '
            'decides the later verdict'),
 'S6-C19': ('doorpep484newtype.py: the synthesised origin class cached by '
            'repr(NewType)',
            'two NewTypes of the same name over different classes, wrapped '
            'one after the other: is_subhint(StrId, int) True'),
 'S6-C20': ('redpep484612646typearg.py: operands of the TypeVar lookup-table '
            'merge swapped (outer binding wins)',
            'user generics over one TypeVar nested with different bindings '
            '(Table[str, Bag[int]]): the inner list[T] is checked with the '
            'outer T; infer_hint round trip fails'),
 'S3-C11': ('pep593.py is_hint_pep593_beartype: the isinstance() test on the '
            'first metadatum moved out of the try/except',
            'Annotated[...] whose first metadatum raises when its __class__ is '
            'read (dead weakref.proxy, unbound lazy proxy): ReferenceError / '
            'RuntimeError leaks from every entry point'),
 'S3-C12': ('_valeutilsnip.py: IsEqual code gets an identity fast path '
            '("obj is X or obj == X")',
            'the checked object is the very object subscripting IsEqual[...] '
            'and is not equal to itself (nan, __eq__ returning False): code '
            'accepts, is_valid() rejects'),
 'S3-C13': ('decorbuiltindescriptor.py: a property whose getter is '
            'unannotated is returned unchanged',
            'property with an unannotated getter and an annotated setter / '
            'deleter: setter values unchecked through the class route'),
 'S3-C14': ('checkmake.py + checkexprscope.py: checkers memoised whenever '
            'the scope holds no unresolved proxy',
            'a stringified reference given to is_bearable / die_if_unbearable, '
            'resolvable at first sight, then the same spelling where the name '
            'means another class (redefinition, local classes): answered with '
            'the first referent'),
 'S3-C15': ('pep695.py resolve_func_scope_pep695: pooled scope dict released '
            'before func_scope.update(scope)',
            'thread A decorating a PEP 695 callable with stringified '
            'annotations preempted after the release while thread B decorates '
            'another: A merges B\'s type parameters'),
 'S3-C16': ('_clawimpfileloader.py: modules hooked under strategy O0 are '
            'compiled untransformed (still cached under the marker)',
            'a run hooked with BeartypeConf(strategy=O0), then a run with a '
            'checking conf over the same tree: reuses the untransformed .pyc, '
            'every check dropped'),
 'S3-C17': ('utilmapfrozen.py: FrozenDict hash from tuple(items) instead of '
            'frozenset(items)',
            'equal hint_overrides with >= 2 entries written in different '
            'orders: equal configurations with different hashes, memo missed'),
 'S3-C18': ('redmain.py reduce_hint: the override reducer is consulted on '
            'the first pass only',
            'an overridden hint reached through another reduction '
            '(Annotated[float, ...], NewType over float, Bag[float]) under '
            'the tower / hint_overrides'),
 'S3-C19': ('doorpep484585tuple.py: fixed-tuple branch lost its "other side '
            'is a fixed tuple too" guard',
            'Tuple[()] <= Literal[1], Tuple[bool] <= Optional[T], Tuple[X] <= '
            'Annotated[object, ...]: True although no tuple satisfies the '
            'right side'),
 'S3-C20': ('infercollectionbuiltin.py: inference of hashable builtin '
            'collections memoised by equality',
            '(1, "a") then (1.0, "a") (or frozenset({3}) then {3.0}) in one '
            'process: the second gets the first one\'s hint'),
 'S2-C11': ('redpep484585itemsview.py: ItemsView child hints unpacked without '
            'the validating getter',
            'ItemsView subscripted with the wrong number of child hints '
            '(ItemsView[int], ItemsView[int, str, bytes]), root or nested: '
            'bare ValueError leaks'),
 'S2-C13': ('utilcacheobjattr.py: per-class memo keyed by module.qualname '
            'instead of the class object',
            'two distinct classes with the same module and qualname under an '
            'already decorated ancestor (class factory, type() twice): the '
            'second is taken for "already decorated" and left untouched'),
 'S2-C15': ('utilmapunbounded.py: lock-free lookup before the lock, no '
            're-check inside (TypeHint singleton cache)',
            'two threads wrapping an equal not-yet-cached hint with a switch '
            'between the lookup and the store: two distinct TypeHint objects '
            'for equal hints'),
 'S2-C16': ('clawastassign.py: the conf= lookup of injected PEP 526 checks is '
            'dropped for the hook-default configuration (bytecode shape no '
            'longer encoded by the marker)',
            'a default-conf run on a cold cache followed by a run under a '
            'custom conf with the same marker (violation types, tower ...): '
            'annotated assignments are checked under the default conf'),
 'S2-C18': ('codemain.py: make_check_expr memo key omits conf.hint_overrides',
            'the same root hint with an overridden hint nested below the '
            'root, checked in one process under two confs with different '
            'hint_overrides: the second reuses the first one\'s code'),
 'S2-C19': ('doorsuper.py: arity check compares a length with itself',
            'two subscripted hints whose origins are subclass-related but '
            'take different numbers of parameters (Counter[str] vs '
            'Mapping[str, str], ItemsView[K, V] vs Collection[K]): is_subhint '
            'answers True from the common prefix instead of raising'),
 'S2-C12': ('_valeisobj.py: the walrus temporary of IsAttr no longer carries '
            'the object prefix (one name per attribute name)',
            'IsAttr[n, IsAttr[n, X] & Y]: the inner walrus rebinds the shared '
            'temporary, the trailing sibling Y is evaluated on obj.n.n'),
 'S2-C14': ('decortype.py: a class whose redefinition was detected is not '
            're-registered',
            'a decorated class hot-reloaded at least twice under a long-lived '
            'decorated callable naming it by an absolute forward reference: '
            'every second redefinition clears no cache, the callable keeps '
            'checking against the previous class'),
 'S2-C17': ('conftest.py: the is_color branch of the validation chain is '
            'entered for every non-None value and swallows the later elifs',
            'is_color explicitly True/False together with an invalid '
            'strategy / violation_verbosity / warning_cls_on_decorator_'
            'exception: accepted, and memoised'),
 'S2-C20': ('infercollectionsabc.py: Container -> Collection transition no '
            'longer requires __len__',
            'an object with __contains__ and __iter__ but no __len__: '
            'inferred as Annotated[Collection, ...], which it is not'),
 'S-C08': ('async-generator wrapper forwards only Exception subclasses via '
           'athrow()',
           'a started decorated async generator receiving athrow() of a '
           'BaseException that is not an Exception (CancelledError, '
           'KeyboardInterrupt ...): inner handlers and finally blocks do not '
           'run'),
 'S-C09': ('error path: non-random confs make the cause finder visit every '
           'item of a conforming sibling container',
           'is_random=False (or a forward-referenced container) + a '
           'sequence/quasi-iterable hint + a conforming container that is a '
           'sibling of the real culprit: its reads grow with its length'),
 'S-C10': ('quasi-iterable check: "is a Collection" weakened to "is Sized"',
           'a one-shot iterator that also defines __len__ (not a Collection) '
           'checked against Iterable/Container/Reversible[T]: its first item '
           'is consumed by the check'),
 'S-C12': ('vale: conjunction code no longer parenthesised',
           'a negated conjunction of validators ~(A & B) at any depth: '
           'generated code computes (not A) and B, is_valid() and the '
           'diagnosis stay right'),
}

# what happened when a seed was first tried (only where the first answer was
# not CAUGHT): kept here because verify_seed.py rewrites meta.json
HISTORY = {
 'S-C09': 'MISSED by the first C09 (every variant made the container itself '
          'the culprit); added the sibling-bad variant (conforming container '
          'next to the culprit in a fixed tuple) - now caught',
 'S-C07': 'MISSED by the first C07: the discrepancy was observed but filed '
          'under the known-finding key of the same mechanism (keys dropped '
          'the symptom); keys now carry the symptom (rejects-conforming / '
          'accepts-same-named-impostor / forward-reference-exception) and the '
          'alias/class distinction - now caught',
 'S-C11': 'MISSED by the first C11 (hostile hints were driven under the '
          'default configuration only); every case is now also driven under '
          'one of seven non-default configurations, root forms under all - '
          'now caught',
 'S-C14': 'MISSED by the first C14 (no query family whose meaning depends on '
          'the scope); added the "scoped" family (relative references in two '
          'module scopes, typing.Self in several classes) and the "homonyms" '
          'family, plus attribution of deviations to the two known mechanisms '
          'by intervention instead of by query form - now caught',
 'S-C15': 'MISSED by the first C15 (three union shapes, uniform LINE-level '
          'preemption: the window was never hit); added union-heavy '
          'operations, preemption at pool acquire/release events with '
          'run-to-completion bursts (caught ~1 run in 2) and the pooled '
          'container ownership sanitizer (caught in every run)',
 'S-C19': 'MISSED by the first C19 (no two hints printing alike in its pools) '
          'and INCONCLUSIVE in C14 (budget); added the homonym stream to C19 '
          'and the homonyms family to C14 - now caught by both',
 'S2-C01': 'MISSED at first contact (the hint grammar had one-parameter user '
           'generics only); added Bag / Table / PairL / Scores generics to '
           'hintenv and the model (nested over a shared TypeVar, two '
           'parameters, bounded TypeVars left open) - caught by C01',
 'S2-C02': 'MISSED at first contact, same cause as S2-C01 - caught by C02 '
           '(unreachable-index on Scores items)',
 'S2-C04': 'MISSED at first contact (no functools.wraps closures among the '
           'decorated callables); added the wraps stream to C04 (pure '
           'pass-through closures and closures with parameters of their own; '
           'oracle = the undecorated closure). The new stream at once found a '
           'genuine defect on the unchanged tree (fixed, 9ece512)',
 'S2-C05': 'MISSED by C05 (single interpreter run by construction; the change '
           'only shows across runs sharing a bytecode cache = C16) and at '
           'first by C16 (only single-option configurations in its pool); '
           'C16 now draws from the full product of the AST-shaping options '
           'and steps between neighbours - caught by C16',
 'S2-C08': 'MISSED at first contact (only directly defined functions); '
           'bodies are now also generated as functools.wraps pass-through '
           'closures around a function of another kind - caught',
 'S2-C09': 'MISSED at first contact (hints were always passed as objects); '
           'one case in five now reaches the hint through a forward '
           'reference bound after decoration - caught',
 'S2-C10': 'MISSED by C10, CAUGHT by C08 at first contact (the defect is in '
           'the generator protocol forwarding); C10 now also sends falsy '
           'objects and spies into decorated generators and compares '
           'identity - caught by both',
 'S3-C02': 'MISSED at first contact (no user generic with several bases); '
           'IntsT(list[int], Tagged[str]), TableT(dict[str, int], '
           'Tagged[int]) and TaggedInts(Tagged[str], list[int]) added to '
           'hintenv and the model - caught',
 'S3-C05': 'MISSED at first contact (C05 assumed "no decorator-hostile '
           'third-party decorators"; the whole import-tracking feature was '
           'unexercised); stand-in celery / fastmcp / langchain_core '
           'packages, ten binding forms (direct call, alias, module '
           'attribute, annotated assignment from a factory, bare annotation '
           'then assignment, untracked control) and the placement rule '
           '"below the leading run of beforelisted decorators" in the '
           'by-hand restatement - caught',
 'S3-C07': 'MISSED at first contact (every program ran its enclosing '
           'functions once); every nested case now runs them a second time '
           'and appends the calls of that invocation to the trace - caught',
 'S3-C08': 'MISSED at first contact (coroutine hints were int-like only); '
           'coroutines that never return normally annotated NoReturn / Never '
           '/ Coroutine[..., NoReturn] - caught',
 'S3-C09': 'MISSED at first contact (leaves were always int / str); '
           'ignorable leaves (Any, object) with the culprit in a sibling - '
           'caught',
 'S3-C10': 'MISSED at first contact (no iterator that is structurally a '
           'Collection); PyCollectionIterator spy. It showed that Iterable[T] '
           'already consumes such objects on the unchanged tree (new open '
           'finding, keyed by hint family) - the seeded Iterator[T] variant '
           'is caught under its own key',
 'S4-C01': 'MISSED by C01 at first contact, CAUGHT by C12 (it is a validator-'
           'algebra defect); C01\'s grammar now has negated compound '
           'validators too - caught by both',
 'S4-C03': 'MISSED by C03 at first contact, CAUGHT by C12; the hint grammar '
           'now has a same-attribute nested IsAttr validator with a sibling '
           'on the outer value (RealBox chains) - caught by both',
 'S4-C04': 'MISSED at first contact (no standard-library decorator below '
           '@beartype); stdlib stream: @beartype above lru_cache / '
           'contextmanager must equal the documented order, parameters '
           'included - caught',
 'S4-C05': 'MISSED at first contact (annotations always sat on ordinary '
           'parameters); positional-only-only and variadic-only styles - '
           'caught',
 'S4-C06': 'MISSED at first contact (no configuration passing '
           'warning_cls_on_decorator_exception=None explicitly); conf N - '
           'caught',
 'S4-C07': 'MISSED at first contact (no program was imported twice, nobody '
           'introspected annotations); 30% of the cases first import a copy '
           'of the same source and call typing.get_type_hints() on it - '
           'caught',
 'S4-C10': 'MISSED at first contact (the recorder took the object through an '
           'ordinary parameter; != on a spy was logged as "eq", which is '
           'allowed); recorder through every parameter kind, __ne__ logged '
           'apart and never allowed - caught',
 'S4-C11': 'MISSED at first contact (no TypeVar bounded by a protocol); '
           'Badge[Person] / BadgeList[Person] over TN bound=HasName (runtime-'
           'checkable protocol with a data member) added to the shared grammar '
           '- caught by C11 and C01',
 'S4-C12': 'MISSED at first contact (no union of Annotated members below a '
           'container); three such placements, with a twin member satisfied '
           'only by what equals a sentinel - caught',
 'S4-C13': 'MISSED at first contact (no typing.Self); fluent methods '
           '"-> typing.Self: return self" at every nesting depth (the member '
           'route, which cannot spell Self, leaves that return unannotated) - '
           'caught',
 'S4-C14': 'INCONCLUSIVE at first contact (load) / would miss: no type[...] '
           'forward reference in the hotreload family; _wf4 / _wf5 added - '
           'caught',
 'S4-C15': 'MISSED at first contact (registrations carried no skip lists); '
           'own registrations with skip names under the shared fresh parent, '
           'registration-storm programs, a final re-check of skip entries, '
           'and a lockset monitor: every mutation of a registry trie node '
           'must happen under claw_lock (fires in every run, no interleaving '
           'needed) - caught',
 'S4-C16': 'MISSED by C16 (one module per process) and by C05 at first '
           'contact; C05 runs many hooked modules in one process: untracked '
           'control decorators now reuse the very names other modules bind to '
           'beforelisted ones - caught by C05',
 'S4-C17': 'MISSED at first contact (overrides of the tower\'s own keys were '
           'avoided); equal and contrary overrides of float / complex, model '
           'of the conflict rule refined - caught',
 'S4-C18': 'MISSED at first contact (type[...] never held float / complex); '
           'the tower now reaches into type[...] in the model and in the '
           'by-hand rewrite - caught',
 'S3-C11': 'MISSED at first contact (hostile objects were used as hints, never '
           'as PEP 593 metadata); directed block: metadata whose inspection '
           'raises (dead weakref.proxy, unbound lazy proxy, raising '
           '__class__) in seven Annotated shapes through every entry point - '
           'caught',
 'S3-C12': 'MISSED at first contact (IsEqual operands and checked objects '
           'were never the same self-unequal object); NAN / NeverEq() / '
           'AlwaysEq() singletons in both pools - caught',
 'S3-C14': 'MISSED at first contact (string references reached the door '
           'functions only by chance next to a redefinition); the redefine '
           'family always carries one, plus a directed history - caught',
 'S3-C15': 'MISSED at first contact (no PEP 695 callable among the '
           'operations); added decorate-pep695+call - caught by the '
           'ownership sanitizer in every run',
 'S3-C16': 'MISSED at first contact (no configuration with another strategy '
           'in the pool); strategy O0 / On and the tower added - caught '
           '(pyc-marker-mismatch)',
 'S3-C17': 'MISSED at first contact (hint_overrides had one entry at most); '
           'equal multi-entry mappings in different insertion orders - caught',
 'S2-C11': 'MISSED at first contact (wrong-arity forms existed for dict, '
           'list, tuple, type only); every subscriptable generic of '
           'collections.abc / collections / builtins is now subscripted with '
           'every arity 0-4 the runtime lets one build - caught',
 'S2-C13': 'MISSED at first contact (every generated class had a unique '
           'name); added the factory stream (distinct classes sharing module '
           'and qualified name under a decorated / plain / __sizeof__-'
           'defining base, class-decorated vs member-decorated) - caught',
 'S2-C18': 'MISSED at first contact under machine load, caught on 3 of 3 '
           'other seeds with 5-8 hits: detection depended on one root hint '
           'meeting two override sets by chance. Every override case now '
           're-checks the same root hint under a second configuration '
           'overriding the same keys differently, then under the first again '
           '- caught with 80+ hits',
 'S2-C14': 'MISSED at first contact (inconclusive in a first run under '
           'machine load): no history redefined a *decorated* class, and - found '
           'while looking into it - histories ran in a copy of the module '
           'globals, so no forward reference ever resolved. Histories now run '
           'in the real module globals; new hotreload family - caught',
 'S2-C20': 'MISSED at first contact (user-defined containers were full '
           'collections.abc subclasses only); added duck-typed classes with '
           'arbitrary subsets of the protocol methods. They found a genuine '
           'defect on the unchanged tree at once (emptiness decided by '
           'truthiness, fixed) - caught',
 'S5-C01': 'MISSED by C01 at first contact, CAUGHT by C14 (it is a history '
           'defect); C01 now asks the same hint text from 2-3 successive '
           'scopes that each have their own class behind the reference - '
           'caught by both',
 'S5-C03': 'MISSED at first contact (no generic whose pseudo-superclass '
           'wraps its TypeVar in type[...]); ClassList / ClassRegistry added '
           'to the shared hint grammar - caught',
 'S5-C04': 'MISSED by C04 at first contact, CAUGHT by C08 (wraps closures '
           'around another kind, round 2); C04\'s closure stream now has an '
           'async adapter shape driven to completion - caught by both',
 'S5-C05': 'MISSED at first contact (hostile decorators were bound at module '
           'scope only); bindings inside functions with defs nested below '
           'them - caught',
 'S5-C06': 'MISSED at first contact (no registration with strategy O0); '
           'configuration O - caught with 200+ hits',
 'S5-C07': 'MISSED at first contact (generated callables were named fn<i>, '
           'g<i>: no name contained a referenced name); a quarter of the '
           'cases name the callable or an enclosing function after what it '
           'references - caught',
 'S5-C09': 'MISSED at first contact (union leaves had one container member); '
           'union leaves with two / three container members - caught',
 'S5-C10': 'MISSED by C10 and C05 at first contact (C10 never went through '
           'the import hook; C05\'s attribute targets had name owners). C10 '
           'has a hooked-module stream now (annotated assignments to '
           'plain / attribute / nested / subscripted targets with counting '
           'right-hand sides, compared with the unhooked module); C05 has '
           'non-name owners - caught by both',
 'S5-C11': 'MISSED at first contact (validator operands were ordinary '
           'values); self-unequal operands and wrappers using a form twice '
           'in one hint - caught',
 'S5-C14': 'MISSED at first contact (references were strings only); module-qualified ForwardRef '
           'objects in the redefine family and its directed history - caught',
 'S5-C15': 'MISSED at first contact: the ownership sanitizer hands out '
           'subclasses of dict / list / set, and the changed code tests the '
           'exact class - the monitor hid the defect. The pooled spy classes '
           'now report the builtin as __class__ (only type() tells them '
           'apart) - caught on every run (release_instance touching a '
           'released container)',
 'S5-C16': 'MISSED at first contact (only AST-shaping options varied between '
           'runs, no dataclass in the module); a fourth, non-shaping '
           'dimension (is_pep557_fields) in the configuration product, the '
           'neighbour step flips it too, the module has a decorated '
           'dataclass - caught',
 'S5-C17': 'MISSED at first contact (configurations were created and '
           'compared, never used); every other configuration of a history '
           'is used (functions, dataclasses in both decoration orders, '
           'rejected fields, statement checks) and all are re-checked at the '
           'end against their snapshot at creation - caught',
 'S5-C19': 'MISSED at first contact (hints containing ignorable children '
           'were kept out of the pools because of Any); Annotated[object, '
           'validator] is admitted (object is not Any; Annotated[Any, ...] '
           'stays out: the property excludes Any) - caught',
 'S6-C01': 'MISSED at first contact (Literal members were generated as '
           'the very objects of the hint, or interned ones); conforming '
           'values are now equal copies half of the time and the literal '
           'pool has a large int, a long str and multi-byte bytes - caught',
 'S6-C02': 'MISSED at first contact (no PEP 646 spelling in the grammar); '
           'fixed tuples are spelled with an unpacked fixed run (first, '
           'middle or last) a fifth of the time - caught',
 'S6-C03': 'MISSED at first contact (every generated hint printed '
           'differently); directed twins (factory classes, same-named '
           'TypeVars / NewTypes, containers of them) wrapped one after the '
           'other, all entry points compared - caught',
 'S6-C06': 'MISSED at first contact (the check observed registry answers '
           'only); histories now (re-)import real modules living under the '
           'registered names and compare the configuration each module runs '
           'under with the model - caught',
 'S6-C10': 'MISSED at first contact: "bool" was on the read-only allowlist '
           'although the property does not list truth-testing. The spies '
           'now log who asks (__bool__ from a user predicate = "bool", from '
           'checking code = "truth-test", not allowed). On the unchanged '
           'tree this showed tuple[()] being checked by truthiness while '
           'the violation path uses the length - repaired (fe3fa70) - '
           'caught',
 'S6-C11': 'MISSED at first contact (every decorated callable was called '
           'once, with one subject); calls are repeated, also with a class, '
           'and names may be bound after decoration to hints that are no '
           'classes - caught',
 'S6-C14': 'MISSED at first contact (names went from undefined to defined); '
           'placeholder-then-class bindings, also under long-lived '
           'callables - caught',
 'S6-C15': 'MISSED at first contact (no hint with an unresolved reference '
           'in a union was decorated concurrently); added - caught on every '
           'run by the ownership sanitizer (list read after release)',
 'S6-C16': 'MISSED at first contact (strategy O0 was one named configuration '
           'in 47; caught once in a later probe); O0 is a value of the '
           'non-shaping dimension of the product and a third of the steps '
           'go to another configuration of the same AST shape - caught with '
           '60+ hits (stale behaviour and "marked but not transformed")',
 'S6-C18': 'MISSED at first contact (the by-hand hint was only checked under '
           'the configuration without overrides); the by-hand hint is now '
           'also given, as a user hint, to the overriding configuration '
           '(expected: rewritten once more), then the original again - '
           'caught',
 'S6-C20': 'MISSED at first contact (no nested user generics in the object '
           'generator); Bag / Table instances nested in each other. On the '
           'unchanged tree this found a genuine defect of the same family '
           '(bare inner generic checked with the outer binding, open '
           'finding) - caught under a key of its own',
 'S-C10': 'MISSED by the first C10 (one-shot spies had no __len__); added '
          'PySizedIterator/PySizedIterable spies to C09 and C10 - now caught',
}


def main():
    rows = []
    for sid in sorted(os.listdir(SEEDED)):
        mp = os.path.join(SEEDED, sid, 'meta.json')
        if not os.path.isfile(mp):
            continue
        meta = json.load(open(mp))
        site, needs = TRIGGERS.get(sid, ('see patch.diff', 'see notes.md'))
        if sid in TRIGGERS and meta.get('needs_to_manifest') != needs:
            meta['needs_to_manifest'] = needs
            meta['changed_site'] = site
            json.dump(meta, open(mp, 'w'), indent=1)
            open(mp, 'a').write('\n')
        t = meta.get('tests', {})
        d = meta.get('demo', {})
        checks = meta.get('checks', {})
        caught = []
        for c, r in sorted(checks.items()):
            keys = r.get('unlisted_keys') or []
            caught.append('%s %s%s' % (
                c, r.get('result'),
                (' (`%s`)' % '`, `'.join(k[:70] for k in keys[:3])) if keys else ''))
        fc = meta.get('first_contact') or {}
        if fc:
            first = '; '.join('%s %s' % (c, r.get('result')) for c, r in sorted(fc.items()) if isinstance(r, dict))
            caught.insert(0, 'FIRST CONTACT (checks as of %s): %s. NOW:' % (fc.get('verif_commit', '?'), first))
        rows.append((sid, meta.get('breaks_property'), site, needs,
                     '%s/%s' % (t.get('still_passing'), t.get('stable_pass')),
                     'fails/passes' if (d.get('on_changed_tree', {}).get('exit') == 1
                                        and d.get('on_repo', {}).get('exit') == 0)
                     else 'NOT CONFIRMED',
                     '; '.join(caught), HISTORY.get(sid, '')))
    out = ['# Seeded changes',
           '',
           'Each directory holds one realistic breaking change to beartype written by a',
           'fresh sub-agent that saw only the property text and its own scratch worktree',
           '(nothing from /verif), then confirmed here with `tools/verify_seed.py`: the',
           'patch applies to /repo HEAD, the pinned suite still passes (column *tests*:',
           'still passing / stable-pass baseline), the author\'s demonstration fails on',
           'the changed tree and passes on /repo (column *demo*), and the checks named in',
           'the last column were run against the changed tree with `tools/mutant.py`',
           '(quick tier, 20-30 s budget).  Apply one with',
           '`git -C /repo apply /verif/seeded/<id>/patch.diff`, undo with',
           '`git -C /repo checkout -- .`; they are never committed to /repo.',
           '',
           '| seed | property | changed site | needs, to manifest | tests | demo | checks (result, first unlisted keys) | history |',
           '|---|---|---|---|---|---|---|---|']
    for r in rows:
        out.append('| ' + ' | '.join(str(x).replace('|', '\\|') for x in r) + ' |')
    out.append('')
    open(os.path.join(SEEDED, 'README.md'), 'w').write('\n'.join(out))
    print('wrote', os.path.join(SEEDED, 'README.md'), len(rows), 'seeds')


if __name__ == '__main__':
    main()

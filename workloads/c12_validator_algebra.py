"""C12 - validator algebra: generated code, is_valid, the diagnosis in the
violation message and plain boolean meaning coincide (DESIGN §4 C12)."""
import os
import re
import sys

sys.path.insert(0, os.path.dirname(os.path.dirname(os.path.abspath(__file__))))
from vlib.worker import Worker, guarded, short, use_repo

use_repo()
from vlib import draws

draws.install()
import beartype   # noqa: E402
from beartype import BeartypeConf   # noqa: E402
from beartype.door import die_if_unbearable, is_bearable   # noqa: E402
from beartype.roar import BeartypeHintViolation   # noqa: E402
from beartype.vale import Is, IsAttr, IsEqual, IsInstance, IsSubclass   # noqa: E402
from typing import Annotated, Any, Union   # noqa: E402

RULE = ('validator expression trees of depth <= D over Is / IsAttr / IsEqual / IsInstance / IsSubclass with & | ~ '
        '(shared sub-validators, repeated and nested attribute names, predicates defined on part of the domain), 1-3 '
        'validators per Annotated, base hints T, at the root and below containers / tuple positions / mapping values; '
        'objects with and without the attributes, classes and non-classes, equal-but-not-identical values; compared: '
        'is_bearable, die_if_unbearable, decorated call, each validator.is_valid, every truth value printed in the '
        'diagnosis tree of the violation message, against a 40-line recursive boolean evaluator; distinct by '
        '(expression, base hint, placement, object); non-trivial = the expression has an operator or IsAttr')

CONF = BeartypeConf(is_color=False)


# ---- objects --------------------------------------------------------------------------
class Box:
    def __init__(self, **kw):
        self.__dict__.update(kw)

    def __repr__(self):
        return 'Box(' + ', '.join(f'{k}={v!r}' for k, v in self.__dict__.items()) + ')'


class A:
    pass


class B(A):
    pass


class NeverEq:
    def __eq__(self, o): return False
    def __hash__(self): return 1
    def __repr__(self): return 'NeverEq()'


class AlwaysEq:
    def __eq__(self, o): return True
    def __hash__(self): return 2
    def __repr__(self): return 'AlwaysEq()'


# objects that are not equal to themselves / equal to everything: the very same object is used both as the
# operand of IsEqual[...] and as the checked object
NAN, NEVER_EQ, ALWAYS_EQ = float('nan'), NeverEq(), AlwaysEq()


def objects():
    return [NAN, NEVER_EQ, ALWAYS_EQ, Box(v=NAN), Box(v=NEVER_EQ), [NAN], 0, 1, 2, -3, True, False, 1.0, 2.5, 'a', '', 'abc', None, b'x', (1,), [1], int, bool, str, A, B, A(), B(),
            Box(), Box(v=1), Box(v=True), Box(v='a'), Box(v=Box(v=1)), Box(v=Box(w=2)), Box(w=0, v=None),
            Box(v=Box(v=Box(v=2))), Box(real=1), Box(v=int), 1 + 0j, Box(v=[1])]


# ---- predicates ------------------------------------------------------------------------
def p_true(x): return True
def p_false(x): return False
def p_truthy(x): return bool(x)
def p_pos(x): return x > 0               # partial: raises TypeError on str / None
def p_even(x): return x % 2 == 0         # partial
def p_len2(x): return len(x) < 2         # partial
def p_isint(x): return isinstance(x, int)


PREDS = [p_true, p_false, p_truthy, p_pos, p_even, p_len2, p_isint]
TYPES = {'int': int, 'bool': bool, 'str': str, 'float': float, 'A': A, 'B': B, 'Box': Box, 'type': type}
EQ_VALUES = [0, 1, True, 1.0, 'a', None, (1,), int, NAN, NEVER_EQ, ALWAYS_EQ]


class Raised:
    def __init__(self, e):
        self.t = type(e)

    def __eq__(self, o):
        return isinstance(o, Raised) and o.t is self.t

    def __repr__(self):
        return f'raises {self.t.__name__}'


def safe(fn):
    try:
        return fn()
    except Exception as e:   # noqa
        return Raised(e)


# ---- expression nodes --------------------------------------------------------------------
class N:
    kids = ()
    _built = None

    def build(self):
        if self._built is None:
            self._built = self._build()
        return self._built

    def nodes(self):
        """Pre-order, IsAttr being a leaf of the diagnosis tree."""
        yield self
        for k in self.diag_kids():
            yield from k.nodes()

    def diag_kids(self):
        return self.kids

    def size(self):
        return 1 + sum(k.size() for k in self.kids)


class NIs(N):
    def __init__(self, f): self.f = f
    def _build(self): return Is[self.f]
    def ev(self, x): return bool(self.f(x))
    def src(self): return f'Is[{self.f.__name__}]'


class NEq(N):
    def __init__(self, v): self.v = v
    def _build(self): return IsEqual[self.v]
    def ev(self, x): return bool(x == self.v)
    def src(self): return f'IsEqual[{self.v!r}]'


class NInst(N):
    def __init__(self, names): self.names = names
    def _build(self): return IsInstance[tuple(TYPES[n] for n in self.names)] if len(self.names) > 1 else IsInstance[TYPES[self.names[0]]]
    def ev(self, x): return isinstance(x, tuple(TYPES[n] for n in self.names))
    def src(self): return 'IsInstance[' + ', '.join(self.names) + ']'


class NSub(N):
    def __init__(self, names): self.names = names
    def _build(self): return IsSubclass[tuple(TYPES[n] for n in self.names)] if len(self.names) > 1 else IsSubclass[TYPES[self.names[0]]]
    def ev(self, x): return isinstance(x, type) and issubclass(x, tuple(TYPES[n] for n in self.names))
    def src(self): return 'IsSubclass[' + ', '.join(self.names) + ']'


class NAttr(N):
    def __init__(self, name, inner): self.name, self.inner, self.kids = name, inner, (inner,)
    def _build(self): return IsAttr[self.name, self.inner.build()]
    def diag_kids(self): return ()

    def ev(self, x):
        sentinel = object()
        v = getattr(x, self.name, sentinel)
        return v is not sentinel and self.inner.ev(v)

    def src(self): return f'IsAttr[{self.name!r}, {self.inner.src()}]'


class NAnd(N):
    def __init__(self, a, b): self.kids = (a, b)
    def _build(self): return self.kids[0].build() & self.kids[1].build()
    def ev(self, x): return self.kids[0].ev(x) and self.kids[1].ev(x)
    def src(self): return f'({self.kids[0].src()} & {self.kids[1].src()})'


class NOr(N):
    def __init__(self, a, b): self.kids = (a, b)
    def _build(self): return self.kids[0].build() | self.kids[1].build()
    def ev(self, x): return self.kids[0].ev(x) or self.kids[1].ev(x)
    def src(self): return f'({self.kids[0].src()} | {self.kids[1].src()})'


class NNot(N):
    def __init__(self, a): self.kids = (a,)
    def _build(self): return ~self.kids[0].build()
    def ev(self, x): return not self.kids[0].ev(x)
    def src(self): return f'~{self.kids[0].src()}'


def gen_expr(rng, depth, shared):
    if shared and rng.random() < .12:
        return rng.choice(shared)          # the very same sub-validator object reused
    if depth <= 0 or rng.random() < .3:
        r = rng.random()
        if r < .35:
            n = NIs(rng.choice(PREDS))
        elif r < .55:
            n = NEq(rng.choice(EQ_VALUES))
        elif r < .8:
            n = NInst(rng.sample(list(TYPES), rng.choice((1, 1, 2))))
        else:
            n = NSub(rng.sample(list(TYPES), rng.choice((1, 1, 2))))
    else:
        r = rng.random()
        if r < .3:
            n = NAnd(gen_expr(rng, depth - 1, shared), gen_expr(rng, depth - 1, shared))
        elif r < .55:
            n = NOr(gen_expr(rng, depth - 1, shared), gen_expr(rng, depth - 1, shared))
        elif r < .75:
            n = NNot(gen_expr(rng, depth - 1, shared))
        else:
            n = NAttr(rng.choice(('v', 'v', 'w', 'real')), gen_expr(rng, depth - 1, shared))
    if rng.random() < .3:
        shared.append(n)
    return n


BASES = [('object', object, lambda x: True), ('Any', Any, lambda x: True), ('int', int, lambda x: isinstance(x, int)),
         ('str', str, lambda x: isinstance(x, str)), ('Union[int, str]', Union[int, str], lambda x: isinstance(x, (int, str))),
         ('Box', Box, lambda x: isinstance(x, Box)), ('type', type, lambda x: isinstance(x, type))]

PLACEMENTS = ['root', 'root', 'root', 'list', 'tuple0', 'dictval', 'set', 'optional', 'nested-list',
              'list-union-first', 'list-union-second', 'dictval-union-first']
# a second Annotated member for unions made of Annotated members only: satisfied by nothing but what equals a sentinel
_TWIN_SENTINEL = object()
TWIN = Annotated[object, IsEqual[_TWIN_SENTINEL]]

_LINE = re.compile(r'^(~?)\s*(True|False) ==\s')


def parse_diagnosis(msg):
    """[(has_tilde, bool or None)] per node line of the diagnosis, in print order."""
    if ' violates validator ' not in msg:
        return None
    body = msg.split(' violates validator ', 1)[1]
    lines = body.split('\n')[1:]
    out = []
    for ln in lines:
        if not ln.strip():
            continue
        m = _LINE.match(ln.lstrip())
        if m:
            out.append((m.group(1) == '~', m.group(2) == 'True'))
            continue
        s = ln.strip()
        if s.startswith(')'):
            continue
        out.append((s.startswith('~'), None))      # a node that was not evaluated
    return out


def place(pl, hint, x):
    if pl == 'root':
        return hint, x
    if pl == 'list':
        return list[hint], [x]
    if pl == 'nested-list':
        return list[list[hint]], [[x]]
    if pl == 'tuple0':
        return tuple[hint, int], (x, 0)
    if pl == 'dictval':
        return dict[str, hint], {'k': x}
    if pl == 'set':
        try:
            return frozenset[hint], frozenset([x])
        except TypeError:
            return list[hint], [x]
    if pl == 'optional':
        return Union[hint, None], x
    # below a container, in a union whose members are all Annotated (no plain class among them)
    if pl == 'list-union-first':
        return list[Union[hint, TWIN]], [x]
    if pl == 'list-union-second':
        return list[Union[TWIN, hint]], [x]
    if pl == 'dictval-union-first':
        return dict[str, Union[hint, TWIN]], {'k': x}
    raise ValueError(pl)


def main():
    W = Worker('C12', RULE, assumptions=[
        'meaning = Python boolean semantics with short-circuit; IsAttr = attribute exists and inner holds on its value',
        'a user predicate that raises on an object makes every agreeing route raise the same exception class',
        'the diagnosis tree prints one line per node in pre-order (IsAttr is a leaf); only printed truth values are compared'])
    quick = W.quick
    depth = 4 if quick else 6
    limit = 300000 if quick else 20000000
    objs = objects()

    for idx in W.cases('expr', limit):
        rng = W.rng('expr', idx)
        shared = []
        nvals = rng.choice((1, 1, 1, 2, 3))
        exprs = [gen_expr(rng, rng.randint(0, depth), shared) for _ in range(nvals)]
        bname, bhint, bmodel = rng.choice(BASES)
        try:
            vals = [e.build() for e in exprs]
            ann = Annotated[(bhint,) + tuple(vals)]
        except Exception as e:   # noqa
            W.violation('build-raised:' + type(e).__name__, f'building {[e_.src() for e_ in exprs]} raised {e!r}', 'expr', idx,
                        dict(exprs=[e_.src() for e_ in exprs]))
            continue
        pl = rng.choice(PLACEMENTS)
        srcs = [e.src() for e in exprs]
        desc = f'Annotated[{bname}, ' + ', '.join(srcs) + f'] at {pl}'
        nontrivial = any(e.size() > 1 for e in exprs)
        W.add('placements', pl)
        for e in exprs:
            for n in e.nodes():
                W.add('node_kinds', type(n).__name__)
        decorated = {}
        for x in rng.sample(objs, 8 if quick else 14):
            def model():
                if pl == 'optional' and x is None:
                    return True          # the other member of Union[<hint>, None]
                def own():
                    if not bmodel(x):
                        return False
                    for e in exprs:
                        if not e.ev(x):
                            return False
                    return True
                # (members are tried in order; an object equal to everything satisfies the twin member)
                if pl.endswith('union-second'):
                    return True if x == _TWIN_SENTINEL else own()
                if pl.endswith('union-first'):
                    return own() or bool(x == _TWIN_SENTINEL)
                return own()
            m = safe(model)
            hint, px = place(pl, ann, x)
            W.evaluate((desc, short(x, 40)) if nontrivial else None)
            W.count('objects')
            witness = dict(validators=srcs, base=bname, placement=pl, obj=short(x, 120), model=repr(m))
            # (a) is_bearable
            a = safe(lambda: is_bearable(px, hint, conf=CONF))
            W.count('route.is_bearable')
            if a != m:
                W.violation('is_bearable-differs', f'is_bearable={a!r} but boolean meaning={m!r}: {desc} obj={short(x, 80)}',
                            'expr', idx, witness)
                break
            # (d) each validator's own is_valid
            bad = False
            for e, v in zip(exprs, vals):
                iv = safe(lambda: bool(v.is_valid(x)))
                mv = safe(lambda: bool(e.ev(x)))
                W.count('route.is_valid')
                if iv != mv:
                    W.violation('is_valid-differs', f'{e.src()}.is_valid({short(x, 60)})={iv!r} but boolean meaning={mv!r}',
                                'expr', idx, dict(witness, validator=e.src()))
                    bad = True
                    break
            if bad:
                break
            # (b)/(c) raising routes
            if hint not in decorated:
                def f(a_):
                    return None
                f.__annotations__ = {'a_': hint}
                try:
                    decorated[hint] = beartype.beartype(conf=CONF)(f)
                except Exception as e:   # noqa
                    W.violation('decorate-raised:' + type(e).__name__, f'@beartype raised for {desc}: {short(e, 300)}', 'expr', idx, witness)
                    bad = True
                    break
            for route, call in (('die_if_unbearable', lambda: die_if_unbearable(px, hint, conf=CONF)),
                                ('decorated', lambda: decorated[hint](px))):
                W.count('route.' + route)
                try:
                    call()
                    got, exc = True, None
                except BeartypeHintViolation as e:
                    got, exc = False, e
                except Exception as e:   # noqa
                    got, exc = Raised(e), e
                if got == m:
                    if got is False:
                        W.count('violations_raised')
                        # (e) the diagnosis: single validator at the root only
                        if route == 'die_if_unbearable' and len(exprs) == 1 and pl == 'root' and bmodel(x):
                            diag = parse_diagnosis(str(exc))
                            if diag is None:
                                W.count('diagnosis_absent')
                                continue
                            nodes = list(exprs[0].nodes())
                            if len(diag) != len(nodes):
                                W.violation('diagnosis-shape', f'diagnosis has {len(diag)} node lines, expression has {len(nodes)} nodes: '
                                                               f'{desc}\n{str(exc)[-600:]}', 'expr', idx, witness)
                                bad = True
                                break
                            W.count('diagnoses_parsed')
                            for (tilde, val), n in zip(diag, nodes):
                                if val is None:
                                    W.count('diagnosis_nodes_unevaluated')
                                    continue
                                W.count('diagnosis_nodes_compared')
                                mv = safe(lambda: bool(n.ev(x)))
                                if isinstance(mv, Raised):
                                    continue
                                if tilde != isinstance(n, NNot) or val != mv:
                                    W.violation('diagnosis-truth-value',
                                                f'diagnosis prints {"~" if tilde else ""}{val} for node {n.src()} whose meaning on '
                                                f'{short(x, 60)} is {mv}: {desc}', 'expr', idx, dict(witness, node=n.src(), message=str(exc)[-800:]))
                                    bad = True
                                    break
                            if bad:
                                break
                    continue
                if m is False and isinstance(got, Raised):
                    key = f'{route}:raises-instead-of-violation'
                    what = (f'{route}: the meaning is a clean rejection (short-circuit never calls the failing predicate) but '
                            f'{got!r} came out while the rejection was being described: {desc} obj={short(x, 80)}: {short(exc, 200)}')
                else:
                    key = f'{route}-differs'
                    what = f'{route} gives {got!r} but boolean meaning={m!r}: {desc} obj={short(x, 80)}'
                W.violation(key, what, 'expr', idx, witness)
                bad = True
                break
            if bad:
                break
        if len(W.samples) < 4 and nontrivial and pl != 'root':
            W.sample(dict(hint=desc, objects=[short(o, 30) for o in objs[:4]]))

    W.need('objects', 3000)
    W.need('violations_raised', 500)
    W.need('diagnoses_parsed', 100)
    W.need('diagnosis_nodes_compared', 300)
    W.need('route.is_valid', 3000)
    W.finish()


guarded(main)

"""C14 - answers do not depend on what was asked before (replay monitor: every
query asked after a generated history must answer exactly as the same query
asked first thing in a pristine interpreter state).  DESIGN §4 C14.

The worker process is a zygote: it imports beartype but never calls it.  A
case forks once, the child runs history + queries and pipes the answers back;
reference answers come from other forks that run only the query (plus the
history's namespace operations, which are part of the query's arguments), and
are memoised per (namespace operations, query)."""
import gc
import json
import os
import sys

sys.path.insert(0, os.path.dirname(os.path.dirname(os.path.abspath(__file__))))
from vlib.worker import Worker, guarded, short, use_repo

use_repo()
from vlib import draws   # noqa: E402

draws.install()
draws.CTL.armed = 7      # one constant sampler draw everywhere: sampled verdicts must not look like history effects
from vlib import hints   # noqa: E402
import beartype   # noqa: E402  (import only: the zygote must stay pristine)

RULE = ('histories of 5-200 public API operations (is_bearable, die_if_unbearable, is_subhint, TypeHint equality, '
        'decorated calls, under default and tower configurations) over equal-but-not-identical hints (union / literal '
        'member orders, Literal[1]/Literal[True], IsEqual[1]/IsEqual[True], List[int]/list[int], tuple unions), '
        'unhashable hints created and dropped in loops (id reuse), unresolved-then-resolved forward references, '
        'same-named class redefinition, cache clearing, gc, configuration look-alikes; every query in the history is '
        'compared with its answer in a pristine forked interpreter; distinct by (namespace state, query); '
        'non-trivial = the query comes after at least one other operation')

HINTS = [
    'int', 'str', 'bool', 'float', 'complex', 'Union[int, str]', 'Union[str, int]', 'Optional[int]', 'Union[None, int]',
    'Literal[1]', 'Literal[True]', 'Literal[0]', 'Literal[False]', 'Literal[1, "a"]', 'Literal["a", 1]',
    'List[int]', 'list[int]', 'list[bool]', 'List[bool]', 'Annotated[int, IsEqual[1]]', 'Annotated[int, IsEqual[True]]',
    'Annotated[object, IsEqual[1.0]]', 'Annotated[object, IsEqual[1]]', '(int, str)', '(str, int)', '(bool, str)',
    'tuple[int, ...]', 'tuple[bool, ...]', 'tuple[int, str]', 'tuple[str, int]', 'dict[str, int]', 'dict[str, bool]',
    '"int"', '"LaterCls"', 'list["LaterCls"]', 'Optional["LaterCls"]', '"K"', 'K', 'list[K]', 'Optional[K]', 'type[K]',
    'Annotated[int, [1]]', 'Annotated[int, [2]]', 'Annotated[str, [1]]', 'Annotated[int, {}]', 'type[int]', 'type[bool]',
    'TB', 'TC', 'NTInt', 'NTA', 'Sequence[int]', 'Sequence[bool]', 'Mapping[str, int]', 'A', 'B', 'type[A]', 'type[B]',
    'Annotated[list[int], Is[pred_sized_lt3]]', 'Annotated[list[int], Is[pred_truthy]]', 'AliasInt', 'AliasListInt',
    'Union[int, "LaterCls"]', 'Union[list[int], list[str]]', 'Union[list[str], list[int]]', 'frozenset[int]', 'set[int]',
]
OBJS = ['1', 'True', '1.0', '0', 'False', '"a"', '[1]', '[True]', '[1.0]', '["a"]', '(1,)', '(1, "a")', '("a", 1)',
        '{"a": 1}', '{"a": True}', 'None', 'int', 'bool', 'A()', 'B()', 'A', 'B', 'K()', 'KOLD', '[K()]', '[KOLD]', 'LATER',
        '[1, 2, 3]', '[]', 'frozenset({1})', '{1}', 'K']
CONFS = ['CONF0', 'CONF_TOWER', 'CONF_NONRANDOM']

PRELUDE = r'''
import gc, warnings
from beartype import beartype as _bt, BeartypeConf
from beartype.door import is_bearable, die_if_unbearable, is_subhint, TypeHint
CONF0 = None
def _conf(name):
    return {'CONF0': BeartypeConf(), 'CONF_TOWER': BeartypeConf(is_pep484_tower=True), 'CONF_NONRANDOM': BeartypeConf(is_random=False)}[name]
KOLD = None
LATER = None
def _ans(fn):
    with warnings.catch_warnings():
        warnings.simplefilter('ignore')
        try:
            v = fn()
        except BaseException as e:
            return 'raise:' + type(e).__name__
    return 'value:' + repr(v)
def ib(o, h, c='CONF0'):  return _ans(lambda: is_bearable(o(), h(), conf=_conf(c)))
def die(o, h, c='CONF0'): return _ans(lambda: die_if_unbearable(o(), h(), conf=_conf(c)))
def sub(h1, h2):          return _ans(lambda: is_subhint(h1(), h2()))
def theq(h1, h2):         return _ans(lambda: TypeHint(h1()) == TypeHint(h2()))
def thsub(h1, h2):        return _ans(lambda: TypeHint(h1()) <= TypeHint(h2()))
def call(h, o, c='CONF0'):
    def build():
        def f(a): return None
        f.__module__ = 'vlib.hintenv'
        f.__annotations__ = {'a': h()}
        return _bt(conf=_conf(c))(f)(o())
    return _ans(build)
def ret(h, o):
    def build():
        def f(a): return a
        f.__module__ = 'vlib.hintenv'
        f.__annotations__ = {'return': h()}
        return _bt(f)(o()) is not None or True
    return _ans(build)
# context-dependent hints: the same spelling means different things in different scopes
import sys as _sys, types as _types, typing as _typing
for _m in ('c14_scope1', 'c14_scope2'):
    _mod = _types.ModuleType(_m)
    exec("class Node:\n    pass\nclass Leaf(Node):\n    pass\n", _mod.__dict__)
    _sys.modules[_m] = _mod
def callm(m, h, o, c='CONF0'):
    # a function of module m whose parameter hint (may hold the relative reference "Node") is checked against o(module)
    def build():
        def f(a): return None
        f.__module__ = m
        f.__annotations__ = {'a': h()}
        return _bt(conf=_conf(c))(f)(o(_sys.modules[m]))
    return _ans(build)
def selfm(name, h, o):
    # a fresh decorated class whose method hint mentions typing.Self, checked against o(that class)
    def build():
        class C:
            def m(self, a): return None
        C.__name__ = C.__qualname__ = name
        C.m.__qualname__ = name + '.m'
        C.m.__annotations__ = {'a': h()}
        C = _bt(C)
        return C().m(o(C))
    return _ans(build)
Self = _typing.Self
# homonyms: distinct hints / classes that print alike
from typing import TypeVar, NewType
TVI, TVS = TypeVar('T', bound=int), TypeVar('T', bound=str)
NTI, NTS = NewType('N', int), NewType('N', str)
R1, R2 = type('Rec', (), {'__module__': 'vlib.hintenv'}), type('Rec', (), {'__module__': 'vlib.hintenv'})
'''

# (hint, an object satisfying it) - N stands for the scope's own class: M.Node for a module scope M, the decorated class
# itself for typing.Self
SCOPED = [('N', 'N()'), ('tuple[N, int]', '(N(), 1)'), ('tuple[int, N]', '(1, N())'), ('list[N]', '[N()]'), ('dict[str, N]', '{"a": N()}'),
          ('Optional[N]', 'N()'), ('Union[N, int]', 'N()'), ('tuple[N, ...]', '(N(),)'), ('tuple[N, N]', '(N(), N())'),
          ('dict[N, int]', '{N(): 1}'), ('tuple[list[N], str]', '([N()], "s")'), ('tuple[N, list[int]]', '(N(), [1])'),
          ('Union[list[N], int]', '[N()]'), ('tuple[Optional[N], str]', '(N(), "s")')]
SCOPED_BAD = ['1', 'None', '(object(), 1)', '[object()]', '(1, 2)', '{"a": 1}', '"s"']


def scoped_query_src(rng, focus=None):
    hint, good = focus or rng.choice(SCOPED)
    obj = good if rng.random() < .65 else rng.choice(SCOPED_BAD + [g for _, g in SCOPED])
    if rng.random() < .55:
        m = rng.choice(('c14_scope1', 'c14_scope2'))
        c = rng.choice(('CONF0', 'CONF0', 'CONF_NONRANDOM'))
        obj = obj.replace('N()', rng.choice(('M.Node()', 'M.Node()', 'M.Leaf()')))
        return f'callm({m!r}, lambda: {hint.replace("N", chr(34) + "Node" + chr(34))}, lambda M: {obj}, {c!r})'
    return f'selfm({rng.choice(("S1", "S2", "S3"))!r}, lambda: {hint.replace("N", "Self")}, lambda M: {obj.replace("N()", "M()")})'

NS_OPS = {
    # namespace operations: plain Python, no beartype call; they are part of the *arguments* of later queries
    'DEFINE_LATER': "class LaterCls:\n    pass\nLaterCls.__module__ = 'vlib.hintenv'\nLATER = LaterCls()\n",
    # the name exists already, bound to something that is no hint (a placeholder to be replaced by the class later)
    'PLACEHOLDER_LATER': "LaterCls = 0\n",
    'REDEFINE_K': "KOLD = K()\nclass K:\n    tag = {n}\nK.__module__ = 'vlib.hintenv'\n",
}
INIT_K = "class K:\n    tag = 0\nK.__module__ = 'vlib.hintenv'\n"
# hot reload: long-lived decorated callables whose absolute forward reference is unresolvable when they are decorated,
# then a *decorated* class defined and redefined under the same module and name.  The reference interpreter sees the
# callables and the latest definition only (marked lines are collapsed by reference()).
DEFINE_WF = ("#WF-DEF\n"
             "def _wf(a: 'vlib.hintenv.W'):\n    return None\n_wf = _bt(_wf)\n"
             "def _wf2(a: \"list['vlib.hintenv.W']\"):\n    return None\n_wf2 = _bt(_wf2)\n"
             "def _wf3(a) -> \"Optional['vlib.hintenv.W']\":\n    return a\n_wf3 = _bt(_wf3)\n"
             "def _wf4(a: \"type['vlib.hintenv.W']\"):\n    return None\n_wf4 = _bt(_wf4)\n"
             "def _wf5(a: \"dict[str, type['vlib.hintenv.W']]\"):\n    return None\n_wf5 = _bt(_wf5)\n")
DEFINE_W = "#W-DEF\n@_bt\nclass W:\n    tag = {n}\n    def m(self, a: int) -> 'W':\n        return self\n"
HOTRELOAD_QUERIES = ['_ans(lambda: _wf(W()))', '_ans(lambda: _wf(1))', '_ans(lambda: _wf2([W()]))', '_ans(lambda: _wf2([1]))',
                     '_ans(lambda: _wf3(W()) is not None)', '_ans(lambda: _wf3(None) is None)', '_ans(lambda: _wf3("x") is None)',
                     '_ans(lambda: W().m(1) is not None)',
                     "call(lambda: \"W\", lambda: W(), 'CONF0')", "ib(lambda: W(), lambda: W, 'CONF0')",
                     "ib(lambda: [W()], lambda: list[W], 'CONF0')", '_ans(lambda: W().m("s") is None)',
                     '_ans(lambda: _wf4(W))', '_ans(lambda: _wf4(int))', '_ans(lambda: _wf5({"k": W}))',
                     '_ans(lambda: _wf4(type("Sub", (W,), {})))']


FAMILIES = {
    # focus families: small hint / object sets so that equal-but-not-identical hints, redefinitions and
    # failing-then-succeeding references really meet inside one history
    'redefine': (['K', 'list[K]', 'Optional[K]', 'type[K]', '"K"', 'list["K"]', 'dict[str, K]', 'Optional["K"]', 'dict[str, "K"]',
                  'tuple["K", ...]', 'list["K"]',
                  # module-qualified reference objects (what typing makes of strings in a module's annotations)
                  'ForwardRef("K", module="vlib.hintenv")', 'list[ForwardRef("K", module="vlib.hintenv")]',
                  'Optional[ForwardRef("K", module="vlib.hintenv")]'],
                 ['K()', 'KOLD', '[K()]', '[KOLD]', 'K', '{"a": K()}', 'None', '1', '(K(),)', '{"a": KOLD}', '[K()]']),
    'forward': (['"LaterCls"', 'list["LaterCls"]', 'Optional["LaterCls"]', 'Union[int, "LaterCls"]', 'dict[str, "LaterCls"]', 'int'],
                ['LATER', '[LATER]', '1', 'None', '{"a": LATER}', '"a"']),
    'literal': (['Literal[1]', 'Literal[True]', 'Literal[0]', 'Literal[False]', 'Literal[1, "a"]', 'Literal["a", 1]', 'Literal[True, "a"]',
                 'Annotated[int, IsEqual[1]]', 'Annotated[int, IsEqual[True]]', 'Annotated[object, IsEqual[1.0]]',
                 'Annotated[object, IsEqual[1]]', 'bool', 'int', 'list[Literal[1]]', 'list[Literal[True]]'],
                ['1', 'True', '1.0', '0', 'False', '"a"', '[1]', '[True]', '[1.0]']),
    'spelling': (['Union[int, str]', 'Union[str, int]', 'Optional[int]', 'Union[None, int]', 'List[int]', 'list[int]', 'List[bool]',
                  'list[bool]', '(int, str)', '(str, int)', '(bool, str)', 'tuple[int, str]', 'tuple[str, int]', 'Union[list[int], list[str]]',
                  'Union[list[str], list[int]]', 'Sequence[int]', 'Sequence[bool]'],
                 ['1', 'True', '"a"', '[1]', '[True]', '["a"]', '(1, "a")', '("a", 1)', 'None', '[]']),
    'unhashable': (['Annotated[int, [1]]', 'Annotated[int, [2]]', 'Annotated[str, [1]]', 'Annotated[int, {}]', 'list[Annotated[int, [1]]]',
                    'list[Annotated[str, [1]]]', 'int', 'str'],
                   ['1', '"a"', '[1]', '["a"]', 'None']),
    'tower': (['float', 'complex', 'list[float]', 'dict[str, float]', 'Union[float, str]', 'int', 'tuple[float, ...]'],
              ['1', '1.0', 'True', '[1]', '[1.0]', '{"a": 1}', '(1,)', '"a"', '1j']),
    'lattice': (['A', 'B', 'type[A]', 'type[B]', 'TB', 'TC', 'NTInt', 'NTA', 'AliasInt', 'AliasListInt', 'list[A]', 'list[B]'],
                ['A()', 'B()', 'A', 'B', '1', '"a"', '[A()]', '[B()]', '[1]']),
    # distinct hints that print alike (typing generics only: PEP 585 hints over same-named classes are the known
    # repr() de-duplication finding, exercised by 'redefine')
    'homonyms': (['TVI', 'TVS', 'NTI', 'NTS', 'List[R1]', 'List[R2]', 'Optional[R1]', 'Optional[R2]', 'List[TVI]', 'List[TVS]',
                  'Union[R1, int]', 'Union[R2, int]', 'int', 'str', 'R1', 'R2'],
                 ['1', '"a"', 'R1()', 'R2()', '[R1()]', '[R2()]', '[1]', '["a"]', 'None']),
    # relative forward references in two module scopes and typing.Self in several classes (scoped_query_src)
    'scoped': ([], []),
    # a decorated class redefined again and again under long-lived callables referring to it by name (build())
    'hotreload': ([], []),
}


def query_src(rng, family=None):
    if family == 'scoped':
        return scoped_query_src(rng)
    if family == 'hotreload':
        return rng.choice(HOTRELOAD_QUERIES)
    hs, os_ = FAMILIES[family] if family else (HINTS, OBJS)
    form = rng.choice(('ib', 'ib', 'ib', 'die', 'sub', 'theq', 'thsub', 'call', 'call', 'ret'))
    h = rng.choice(hs)
    if form in ('sub', 'theq', 'thsub'):
        h2 = rng.choice(hs)
        return f'{form}(lambda: {h}, lambda: {h2})'
    o = rng.choice(os_)
    if form == 'ret':
        return f'ret(lambda: {h}, lambda: {o})'
    c = rng.choice(CONFS) if family in ('tower', None) else rng.choice(('CONF0', 'CONF0', 'CONF_NONRANDOM'))
    if form == 'call':
        return f'call(lambda: {h}, lambda: {o}, {c!r})'
    return f'{form}(lambda: {o}, lambda: {h}, {c!r})'


def noise_src(rng):
    r = rng.random()
    if r < .25:
        n = rng.choice((5, 50, 200))
        return f'for _i in range({n}):\n    is_subhint(Annotated[int, [_i]], int)\n    TypeHint(Annotated[int, [_i]]) == TypeHint(Annotated[int, [_i + 1]])\n'
    if r < .4:
        return 'gc.collect()\n'
    if r < .55:
        return ('try:\n    from beartype._util.cache.utilcacheclear import clear_caches\n    clear_caches()\nexcept ImportError:\n    pass\n')
    if r < .7:
        n = rng.choice((20, 100))
        return f'for _i in range({n}):\n    is_bearable([_i], list[Annotated[int, [_i]]])\n'
    if r < .85:
        return 'for _v in (True, 1, 1.0):\n    try:\n        BeartypeConf(is_debug=_v)\n    except Exception:\n        pass\n'
    return ('for _i in range(30):\n    _T = type("Tmp%d" % _i, (), {})\n    is_bearable(_T(), _T)\n    is_bearable(1, _T)\n    del _T\ngc.collect()\n')


_BASE_NS = None


def base_ns():
    """Namespace of helper definitions, built once in the zygote: only imports and
    function/class definitions, no beartype call (fork is the costly step here:
    this VM serialises forks at ~130/s over all processes)."""
    global _BASE_NS
    if _BASE_NS is None:
        # the namespace IS the globals of the real module vlib.hintenv (not a copy): names bound by the steps of a
        # history are then attributes of sys.modules['vlib.hintenv'], which is where beartype resolves the forward
        # references of callables whose __module__ is 'vlib.hintenv'.  Children are forked, so whatever a history binds
        # stays private to its child.
        ns = hints.env()
        assert ns['__name__'] == 'vlib.hintenv'
        exec(PRELUDE, ns)
        exec(INIT_K, ns)
        # beartype imports most of itself lazily on first use (~0.3 s): import every
        # pure-beartype submodule here, once, so that children do not pay for it.  Imports
        # run module-level code only; no public API is called, no hint is ever seen.
        import importlib
        import pkgutil
        for m in pkgutil.walk_packages(beartype.__path__, 'beartype.'):
            if any(part in m.name for part in ('.external', 'beartype.claw', '_clawimpsmoke', 'beartype.cave')):
                continue
            try:
                importlib.import_module(m.name)
            except BaseException:
                pass
        _BASE_NS = ns
    return _BASE_NS


def run_in_child(steps):
    """Fork; the child executes the steps in order in one namespace and returns
    the answers of the query steps.  steps: list of ('ns'|'noise'|'query', source)."""
    r, w = os.pipe()
    pid = os.fork()
    if pid == 0:
        out = []
        try:
            os.close(r)
            ns = base_ns()
            for kind, src in steps:
                if kind == 'query':
                    try:
                        out.append(eval(src, ns))
                    except BaseException as e:   # noqa
                        out.append('harness:' + type(e).__name__ + ':' + str(e)[:80])
                else:
                    try:
                        exec(src, ns)
                    except BaseException as e:   # noqa
                        out.append('harness-step:' + type(e).__name__ + ':' + str(e)[:80]) if kind == 'ns' else None
            payload = json.dumps(out)
        except BaseException as e:   # noqa
            payload = json.dumps(['child-crash:' + type(e).__name__ + ':' + str(e)[:200]])
        try:
            with os.fdopen(w, 'w') as f:
                f.write(payload)
        finally:
            os._exit(0)
    os.close(w)
    with os.fdopen(r) as f:
        data = f.read()
    os.waitpid(pid, 0)
    return json.loads(data) if data else ['child-died']


def main():
    W = Worker('C14', RULE, assumptions=[
        'an answer is the verdict / returned value or the class of the raised exception; message texts and object '
        'identities are not compared across interpreters',
        'namespace operations of the history (class definition / same-named redefinition) are arguments of later '
        'queries and are replayed in the reference interpreter; every beartype call of the history is not',
        'the reference state is the one left by "import beartype" (forked zygote)'])
    quick = W.quick
    limit = 100000 if quick else 5000000
    ref_cache = {}

    # every worker draws its queries from its own pool of 160, so that references are reused
    pool_rng = W.rng('pool', W.k)
    pools = {fam: [query_src(pool_rng, fam) for _ in range(45)] for fam in FAMILIES}
    pools[None] = [query_src(pool_rng) for _ in range(60)]
    base_ns()

    def reference(ns_ops, q):
        # the namespace state matters only to queries that name what it (re)binds
        if not any(t in q for t in ('LaterCls', 'LATER', 'K')) and q not in HOTRELOAD_QUERIES:
            ns_ops = ()
        # hot reload: the pristine interpreter sees the long-lived callables and the latest definition of W only
        last_w = max([i for i, s in enumerate(ns_ops) if s.startswith('#W-DEF')], default=None)
        ns_ops = [s for i, s in enumerate(ns_ops) if not s.startswith('#W-DEF') or i == last_w]
        key = (tuple(ns_ops), q)
        if key not in ref_cache:
            steps = [('ns', s) for s in ns_ops] + [('query', q)]
            ans = run_in_child(steps)
            ref_cache[key] = ans[-1] if ans else 'child-died'
            W.count('reference_forks')
        return ref_cache[key]

    # interventions used to attribute a deviation to a known mechanism (see the classification below)
    PIN_WRAPPERS = ('import beartype.door._cls.doormeta as _dm\n_PINNED = []\n_orig_call = _dm._TypeHintMetaclass.__call__\n'
                    'def _pinning_call(cls, hint):\n    w = _orig_call(cls, hint)\n    _PINNED.append(w)\n    return w\n'
                    '_dm._TypeHintMetaclass.__call__ = _pinning_call\n')     # no wrapper ever dies: no id() is reused
    UNDO_REPR_DEDUP = ('from beartype._check.convert import _convcoerce as _cc\n'
                       '_cc._hint_repr_to_hint._key_to_value.clear()\n')      # forget hints de-duplicated by repr()

    def explained(steps, pos_in_steps, want, at_start=None, before_query=None):
        st = list(steps[:pos_in_steps + 1])
        if before_query:
            st.insert(pos_in_steps, ('noise', before_query))
        if at_start:
            st.insert(0, ('noise', at_start))
        ans = run_in_child(st)
        W.count('intervention_forks')
        ok = bool(ans) and ans[-1] == want
        W.count('deviations_explained_by_intervention' if ok else 'deviations_not_explained_by_intervention')
        return ok

    def build(rng):
        n = rng.choice((5, 8, 12, 20, 40)) if quick else rng.choice((5, 12, 40, 100, 200))
        steps, ns_ops, redefs = [], [], 0
        family = rng.choice(list(FAMILIES))
        local = rng.sample(pools[family], 5)     # asked again and again, before and after namespace operations
        if family == 'redefine':
            # ... always with a stringified reference on a conforming object of the class as currently defined
            local = local + [rng.choice(("ib(lambda: [K()], lambda: list[\"K\"], 'CONF0')",
                                         "die(lambda: {\"a\": K()}, lambda: dict[str, \"K\"], 'CONF0')",
                                         "ib(lambda: K(), lambda: Optional[\"K\"], 'CONF_NONRANDOM')",
                                         "call(lambda: list[\"K\"], lambda: [K()], 'CONF0')"))]
        if family == 'scoped':
            # one spelling asked in several scopes / classes within the same history
            focus = rng.choice(SCOPED)
            local = [scoped_query_src(rng, focus) for _ in range(6)]
        W.add('families', family)
        if family == 'hotreload':
            gen = 1
            steps += [('ns', DEFINE_WF), ('ns', DEFINE_W.format(n=gen))]
            for _ in range(n):
                r = rng.random()
                if r < .25 and gen < 7:
                    gen += 1
                    steps.append(('ns', DEFINE_W.format(n=gen)))
                elif r < .32:
                    steps.append(('noise', noise_src(rng)))
                else:
                    steps.append(('query', rng.choice(HOTRELOAD_QUERIES) if rng.random() < .9 else rng.choice(pools[None])))
            W.count('hotreload_histories')
            W.count('hotreload_redefinitions', gen - 1)
            return steps
        for _ in range(n):
            r = rng.random()
            if r < .10 and family == 'forward' and not ns_ops:
                ns_ops.append('PLACEHOLDER_LATER')
                steps.append(('ns', NS_OPS['PLACEHOLDER_LATER']))
            elif r < (.22 if family == 'forward' else .03) and 'DEFINE_LATER' not in ns_ops:
                ns_ops.append('DEFINE_LATER')
                steps.append(('ns', NS_OPS['DEFINE_LATER']))
            elif r < (.30 if family == 'redefine' else .06) and redefs < 3:
                redefs += 1
                ns_ops.append('REDEFINE')
                steps.append(('ns', NS_OPS['REDEFINE_K'].format(n=redefs)))
            elif r < .40 and rng.random() < .4:
                steps.append(('noise', noise_src(rng)))
            else:
                steps.append(('query', rng.choice(local) if rng.random() < .8 else rng.choice(pools[family] if rng.random() < .7 else pools[None])))
        return steps

    R1 = NS_OPS['REDEFINE_K'].format(n=1)
    LOOP = 'for _i in range(300):\n    is_subhint(Annotated[int, [_i]], int)\n'
    directed = [
        # same-named class redefinition between two identical queries
        [('query', "ib(lambda: {\"a\": K()}, lambda: dict[str, K], 'CONF0')"), ('ns', R1),
         ('query', "ib(lambda: {\"a\": K()}, lambda: dict[str, K], 'CONF0')")],
        [('query', "call(lambda: list[K], lambda: [K()], 'CONF0')"), ('ns', R1), ('query', "call(lambda: list[K], lambda: [K()], 'CONF0')")],
        [('query', "ret(lambda: type[K], lambda: K)"), ('ns', R1), ('query', "ret(lambda: type[K], lambda: K)")],
        # unhashable hints created and dropped in a loop, then a look-alike query
        [('noise', LOOP)] + [('query', "sub(lambda: Annotated[str, [1]], lambda: int)")] * 1 + [('noise', LOOP)]
        + [('query', "sub(lambda: Annotated[str, [2]], lambda: int)"), ('query', "theq(lambda: Annotated[str, [1]], lambda: Annotated[int, [1]])")],
        # unresolved then resolved forward reference
        [('query', "ib(lambda: 1, lambda: \"LaterCls\", 'CONF0')"), ('ns', NS_OPS['DEFINE_LATER']),
         ('query', "ib(lambda: LATER, lambda: \"LaterCls\", 'CONF0')"), ('query', "call(lambda: list[\"LaterCls\"], lambda: [LATER], 'CONF0')")],
        # a reference first resolved while its name is bound to a placeholder that is no hint, then to the class
        [('ns', NS_OPS['PLACEHOLDER_LATER']), ('query', "call(lambda: \"LaterCls\", lambda: 1, 'CONF0')"),
         ('query', "call(lambda: list[\"LaterCls\"], lambda: [1], 'CONF0')"), ('ns', NS_OPS['DEFINE_LATER']),
         ('query', "call(lambda: \"LaterCls\", lambda: LATER, 'CONF0')"), ('query', "call(lambda: list[\"LaterCls\"], lambda: [LATER], 'CONF0')"),
         ('query', "call(lambda: \"LaterCls\", lambda: 1, 'CONF0')")],
        # long-lived callables decorated before the name exists; first called while the name is a placeholder, then
        # after it became the class
        [('ns', DEFINE_WF), ('ns', 'W = 0\n'), ('query', '_ans(lambda: _wf(1))'), ('query', '_ans(lambda: _wf2([1]))'),
         ('query', '_ans(lambda: _wf3(None) is None)'), ('ns', DEFINE_W.format(n=1)), ('query', '_ans(lambda: _wf(W()))'),
         ('query', '_ans(lambda: _wf2([W()]))'), ('query', '_ans(lambda: _wf3(W()) is not None)'), ('query', '_ans(lambda: _wf(1))')],
        # equal-but-not-identical literals and validators
        [('query', "ib(lambda: True, lambda: Literal[1], 'CONF0')"), ('query', "ib(lambda: 1, lambda: Literal[True], 'CONF0')"),
         ('query', "ib(lambda: 1.0, lambda: Annotated[object, IsEqual[1]], 'CONF0')"), ('query', "sub(lambda: Literal[1], lambda: Literal[True])"),
         ('query', "theq(lambda: Literal[1], lambda: Literal[True])"), ('query', "ib(lambda: [True], lambda: list[Literal[1]], 'CONF0')")],
        # one spelling, two scopes: relative forward references and typing.Self
        [('query', "callm('c14_scope1', lambda: tuple[\"Node\", int], lambda M: (M.Node(), 1), 'CONF0')"),
         ('query', "callm('c14_scope2', lambda: tuple[\"Node\", int], lambda M: (M.Node(), 1), 'CONF0')"),
         ('query', "callm('c14_scope2', lambda: list[\"Node\"], lambda M: [M.Node()], 'CONF0')"),
         ('query', "callm('c14_scope1', lambda: list[\"Node\"], lambda M: [M.Node()], 'CONF0')")],
        [('query', "selfm('S1', lambda: tuple[Self, int], lambda M: (M(), 1))"), ('query', "selfm('S2', lambda: tuple[Self, int], lambda M: (M(), 1))"),
         ('query', "selfm('S1', lambda: Optional[Self], lambda M: M())"), ('query', "selfm('S2', lambda: Optional[Self], lambda M: M())")],
        # stringified references given to the statement-level checkers, resolved at first sight, then the name rebound
        [st for g in (1, 2) for st in (
            ('query', "ib(lambda: [K()], lambda: list[\"K\"], 'CONF0')"), ('query', "ib(lambda: {\"a\": K()}, lambda: dict[str, \"K\"], 'CONF0')"),
            ('query', "die(lambda: K(), lambda: Optional[\"K\"], 'CONF0')"), ('query', "ib(lambda: K(), lambda: \"K\", 'CONF0')"),
            ('query', "ib(lambda: (K(),), lambda: tuple[\"K\", ...], 'CONF0')"),
            ('query', "ib(lambda: K(), lambda: ForwardRef(\"K\", module=\"vlib.hintenv\"), 'CONF0')"),
            ('query', "call(lambda: list[ForwardRef(\"K\", module=\"vlib.hintenv\")], lambda: [K()], 'CONF0')"),
            ('ns', NS_OPS['REDEFINE_K'].format(n=g)),
            ('query', "ib(lambda: [KOLD], lambda: list[\"K\"], 'CONF0')"))]
        + [('query', "ib(lambda: [K()], lambda: list[\"K\"], 'CONF0')"), ('query', "die(lambda: K(), lambda: Optional[\"K\"], 'CONF0')"),
           ('query', "ib(lambda: K(), lambda: ForwardRef(\"K\", module=\"vlib.hintenv\"), 'CONF0')"),
           ('query', "call(lambda: list[ForwardRef(\"K\", module=\"vlib.hintenv\")], lambda: [K()], 'CONF0')")],
        # a decorated class hot-reloaded five times under long-lived callables naming it
        [('ns', DEFINE_WF)] + [st for g in range(1, 6) for st in (
            ('ns', DEFINE_W.format(n=g)), ('query', '_ans(lambda: _wf(W()))'), ('query', '_ans(lambda: _wf2([W()]))'),
            ('query', '_ans(lambda: _wf3(W()) is not None)'), ('query', '_ans(lambda: W().m(1) is not None)'),
            ('query', '_ans(lambda: _wf4(W))'), ('query', '_ans(lambda: _wf5({"k": W}))'))],
        # same-named, differently meant hints wrapped one after the other
        [('query', "sub(lambda: int, lambda: TypeVar('T', bound=int))"), ('query', "sub(lambda: int, lambda: TypeVar('T', bound=str))"),
         ('query', "sub(lambda: str, lambda: NewType('N', str))"), ('query', "sub(lambda: NewType('N', int), lambda: str)"),
         ('query', "theq(lambda: TypeVar('T', bound=int), lambda: TypeVar('T', bound=str))")],
    ]

    def cases():
        if W.is_lead() and W.replay_case is None:
            for i, st in enumerate(directed):
                yield 'directed', i, st
        elif W.replay_case is not None and W.replay_case.get('stream') == 'directed':
            yield 'directed', W.replay_case['index'], directed[W.replay_case['index']]
        for idx in W.cases('hist', limit):
            yield 'hist', idx, build(W.rng('hist', idx))

    for stream, idx, steps in cases():
        ns_ops_at, cur = [], []
        for k_, s_ in steps:
            if k_ == 'ns':
                cur = cur + [s_]
            elif k_ == 'query':
                ns_ops_at.append(list(cur))
        answers = run_in_child(steps)
        queries = [s for k, s in steps if k == 'query']
        W.count('history_forks')
        W.count('histories')
        if len(answers) != len(queries):
            W.violation('harness-error', f'child returned {len(answers)} answers for {len(queries)} queries: {answers[:3]}', stream, idx,
                        dict(steps=[s for _, s in steps][:10]))
            continue
        for pos, (q, got, nsops) in enumerate(zip(queries, answers, ns_ops_at)):
            W.count('queries')
            W.evaluate((tuple(len(x) for x in nsops), q) if pos > 0 else None)
            if got.startswith(('harness', 'child')):
                W.violation('harness-error', f'{q}: {got}', stream, idx, dict(query=q))
                break
            want = reference(nsops, q)
            W.count('answers.' + got.split(':')[0])
            if got != want:
                form = q.split('(', 1)[0]
                # mechanism, from observable features of the witness
                pos_in_steps = [i for i, st in enumerate(steps) if st[0] == 'query'][pos]     # this occurrence, not a later one
                earlier = steps[:pos_in_steps]
                redefined_before = any(k == 'ns' and 'class K' in s_ for k, s_ in earlier)
                # A deviation is filed under a known mechanism only if the intervention that disables exactly that
                # mechanism makes the same history answer like the pristine interpreter (one more fork).
                if redefined_before and 'K' in q.replace('KOLD', '') and \
                        explained(steps, pos_in_steps, want, before_query=UNDO_REPR_DEDUP):
                    key = 'same-named-class-redefinition:stale-answer'
                elif form in ('sub', 'theq', 'thsub') and explained(steps, pos_in_steps, want, at_start=PIN_WRAPPERS):
                    # is_subhint / TypeHint.__eq__ are memoised by id() of wrapper objects that can die
                    key = 'door:id-keyed-memo'
                else:
                    key = f'history-dependent:{form}:{want.split(":")[0]}->{got.split(":")[0]}'
                    if want.startswith('raise:') or got.startswith('raise:'):
                        key += ':' + (want if want.startswith('raise:') else got).split(':', 1)[1]
                before = [s for k, s in steps][:len([1 for k, s in steps[:steps.index(('query', q))]])]
                W.violation(key, f'{q} answers {got} after the history but {want} in a pristine interpreter '
                                 f'(query {pos + 1} of {len(queries)})', stream, idx,
                            dict(query=q, after_history=got, pristine=want, history=[short(s, 120) for k, s in steps][:60]))
                break
        if len(W.samples) < 3:
            W.sample(dict(history=[short(s, 80) for k, s in steps][:8], answers=answers[:4]))

    W.need('histories', 40)
    W.need('queries', 300)
    W.need('reference_forks', 50)
    W.need('answers.value', 120)
    W.need('answers.raise', 40)
    W.finish()


guarded(main)

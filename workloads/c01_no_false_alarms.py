"""C01 - no false alarms: a conforming object is accepted by every entry point
under every sampler draw (reference-model monitor, DESIGN §4 C01)."""
import os
import sys

sys.path.insert(0, os.path.dirname(os.path.dirname(os.path.abspath(__file__))))
from vlib.worker import Worker, guarded, short, use_repo

use_repo()
from vlib import draws

draws.install()
from vlib import engine, hints   # noqa: E402  (imports beartype)
from beartype.roar import BeartypeDecorHintPepUnsupportedException  # noqa: E402

RULE = ('seeded recursive sampler over hint grammar G (vlib/hints.py) x configurations x conforming '
        'objects built by gen_in and confirmed conforming by the independent full() model x sampler '
        'draws (all residues of the lcm of sequence lengths, 32-bit edge values, random 32-bit values) x '
        'six entry points; plus, for a fifth of the cases, the same hint text wrapped around a relative reference '
        "('Node') asked from 2-3 successive scopes that each define their own Node (statement checkers and a "
        'decorated function, each with the conforming object of its own scope); a case is distinct by (hint source, '
        'configuration); non-trivial = hint has at least one child or is a literal/type/named form (not a bare class)')

DIRECTED = [
    # (hint src, object src): hostile conforming objects picked by hand
    ('list[int]', '[True, False, IntSub(3)]'),
    ('Sequence[str]', "'abc'"),
    ('Sequence[int]', "b'abc'"),
    ('Sequence[int]', 'range(5)'),
    ('tuple[()]', '()'),
    ('tuple[int, ...]', '()'),
    ('Tuple[int, str]', "TupleSub((1, 'a'))"),
    ('Union[int, list[str], None]', "['a', 'b']"),
    ('Optional[list[Optional[int]]]', '[None, 1, None]'),
    ('dict[str, list[int]]', "{'a': [], 'b': [1, 2]}"),
    ('Mapping[str, int]', "ChainMap({}, {'a': 1})"),
    ('Counter[str]', "Counter('aab')"),
    ('defaultdict[str, int]', 'defaultdict(int)'),
    ('Literal[1, "a", None, Col.RED]', 'Col.RED'),
    ('Literal[True]', 'True'),
    ('Literal[0]', '0'),
    ('type[A]', 'C'),
    ('type[Union[A, int]]', 'bool'),
    ('Collection[int]', '{1: "a"}'),
    ('Iterable[int]', '(i for i in ["not", "inspected"]) if False else iter([1, 2])'),
    ('Container[str]', "'abc'"),
    ('Reversible[int]', '{1: 2, 3: 4}'),
    ('KeysView[int]', '{1: 2}.keys()'),
    ('ValuesView[str]', "{1: 'a'}.values()"),
    ('ItemsView[int, str]', "{1: 'a'}.items()"),
    ('deque[int]', 'deque([1, 2, 3], maxlen=3)'),
    ('frozenset[tuple[int, str]]', "frozenset({(1, 'a')})"),
    ('Annotated[list[int], Is[pred_sized_lt3]]', '[1, 2]'),
    ('Annotated[int, "meta"]', 'True'),
    ('TB', 'C()'), ('TC', "'s'"), ('TBU', 'B()'), ('T', 'object()'),
    ('NTListInt', '[1, 2]'), ('NTNT', '5'),
    ('AliasListInt', '[1]'), ('AliasOptA', 'None'),
    ('L[int]', 'LInt([1, 2])'), ('M[int]', "M(a=1)"), ('GenSeq[int]', 'GenSeq([1, 2, 3])'),
    ('HasFoo', 'WithFooLen()'),
    ('list[Any]', '[object(), None]'), ('dict[Any, int]', '{None: 1}'), ('dict[str, object]', "{'a': D()}"),
    ('Union[int, Any]', 'D()'),
    ('tuple[list[int], dict[str, set[int]]]', "([1], {'a': {1}})"),
    ('list[list[list[int]]]', '[[[1], []], [], [[2, 3]]]'),
    ('Optional[TAnyBound]', '1'),
    ('RecJson', '[[[1]], 2, []]'), ('RecList[int]', '[[1], 2]'), ('RecList[int]', '[[[1]]]'), ('RecList[str]', "[[[['a']]]]"),
    ('Union[TAnyBound, int]', "'s'"),
    # user generics over one TypeVar nested in each other, the inner one subscripted / left bare
    ('Table[str, Bag[int]]', "Table({'a': Bag([1])})"), ('Table[tuple, Bag]', 'Table({(): Bag([object()])})'),
]


# Context-dependent children: the same hint *text* used from several scopes, each of which has its own class behind
# the relative reference 'Node'.  (wrapper source over H_ = a generated hint, builder of a conforming object from a
# Node instance n and an object x conforming to H_)
SCOPED_WRAPPERS = [
    ("tuple['Node', H_]", lambda n, x: (n, x)),
    ("tuple[H_, 'Node']", lambda n, x: (x, n)),
    ("dict['Node', H_]", lambda n, x: {n: x}),
    ("Union[H_, 'Node']", lambda n, x: n),
    ("Union['Node', H_]", lambda n, x: x),
    ("Optional['Node']", lambda n, x: n),
    ("list['Node']", lambda n, x: [n, n]),
    ("tuple[list['Node'], H_]", lambda n, x: ([n], x)),
    ("dict[str, dict['Node', H_]]", lambda n, x: {'k': {n: x}}),
    ("tuple['Node', ...]", lambda n, x: (n,)),
    ("Mapping['Node', tuple[H_, 'Node']]", lambda n, x: {n: (x, n)}),
]
SCOPE_TEMPLATE = '''
def scope_{k}(H_, build, x, conf, draw, armed):
    class Node:
        pass
    hint = {wrapper}
    obj = build(Node(), x)
    out = []
    try:
        @beartype(conf=conf)
        def f(a: {wrapper}) -> {wrapper}:
            return a
    except Exception as e:
        out.append(('decoration', e))
        f = None
    with armed(draw):
        try:
            if is_bearable(obj, hint, conf=conf) is not True:
                out.append(('is_bearable', False))
        except Exception as e:
            out.append(('is_bearable', e))
        try:
            die_if_unbearable(obj, hint, conf=conf)
        except Exception as e:
            out.append(('die_if_unbearable', e))
        if f is not None:
            try:
                if f(obj) is not obj:
                    out.append(('call', 'not-identity'))
            except Exception as e:
                out.append(('call', e))
    return out
'''


def scoped_case(W, idx, rng, node, x, cs):
    """Same hint text from 2-3 successive scopes with their own `Node`; every scope must accept its own object."""
    from beartype import beartype
    from beartype.door import die_if_unbearable, is_bearable
    wsrc, build = SCOPED_WRAPPERS[rng.randrange(len(SCOPED_WRAPPERS))]
    nscopes = rng.choice((2, 2, 3))
    env = dict(hints.env())
    env.update(beartype=beartype, is_bearable=is_bearable, die_if_unbearable=die_if_unbearable)
    for k in range(nscopes):
        exec(SCOPE_TEMPLATE.format(k=k, wrapper=wsrc), env)
    H = node.hint()
    W.evaluate(('scoped', wsrc, node.src, cs.key()))
    W.add('scoped_wrappers', wsrc)
    for k in range(nscopes):
        r = rng.getrandbits(32)
        try:
            out = env[f'scope_{k}'](H, build, x, cs.conf(), r, draws.armed)
        except TypeError:
            W.count('scoped_unbuildable')     # x unhashable where a key is needed, ...
            return
        W.count('scoped_scopes')
        W.count('checks', 3)
        for ep, e in out:
            if isinstance(e, BeartypeDecorHintPepUnsupportedException):
                W.count('hints_declared_unsupported')
                return
            kind = 'rejected' if e is False or type(e).__name__.endswith('Violation') else (
                e if isinstance(e, str) else 'raise:' + type(e).__name__)
            W.violation(f'false-alarm:scoped-reference:{ep}:{kind}',
                        f'scope {k} of {nscopes}: {ep} did not accept the conforming object of its own scope: '
                        f'hint={wsrc} with H_={node.src} conf={cs!r} -> {short(engine.strip_ansi(str(e)), 300)}',
                        'rand', idx, dict(wrapper=wsrc, hint=node.src, conf=cs.kw, scope=k, draw=r))
            return


def check_case(W, stream, idx, node_src, hint, fullfn, objs, cs, rng, kinds, draw_cap, nontrivial=True):
    try:
        subj = engine.Subject(hint, cs)
    except Exception as e:   # noqa
        W.violation('harness-error', f'Subject() raised {e!r}', stream, idx, dict(hint=node_src))
        return
    for where, e in subj.prep_error.items():
        if isinstance(e, BeartypeDecorHintPepUnsupportedException):
            W.count('hints_declared_unsupported')
            W.add('unsupported_hints', node_src)
            return
    if subj.prep_error:
        where, e = next(iter(subj.prep_error.items()))
        W.violation('error:' + engine.exc_site(e),
                    f'preparing {where} for supported hint {node_src} raised {type(e).__name__}: {short(e, 300)}',
                    stream, idx, dict(hint=node_src, conf=repr(cs), where=where))
        return
    for x in objs:
        dset = draws.draw_set(rng, hints.seq_lens(x), cap=draw_cap, extra_random=2)
        W.evaluate((node_src, cs.key()) if nontrivial else None)
        for r in dset:
            for ep in engine.ENTRY_POINTS:
                out = subj.run(ep, x, r)
                if out.verdict == 'skip':
                    W.count('typehint_unsupported_skips')
                    continue
                W.count('checks')
                W.count('ep.' + ep)
                W.count('draws_served', out.draws)
                if out.verdict == 'accept':
                    W.count('accepted')
                    if ep == 'return' and out.value is not x:
                        W.violation('return-not-identity', f'{node_src}: return value not the object passed',
                                    stream, idx, dict(hint=node_src, obj=short(x)))
                    continue
                if out.verdict == 'reject':
                    key = 'false-alarm:' + '+'.join(kinds)
                    what = (f'{ep} REJECTED conforming object under draw {r}: hint={node_src} '
                            f'obj={short(x, 200)} conf={cs!r} msg={short(engine.strip_ansi(str(out.exc)), 400)}')
                else:
                    key = 'error:' + engine.exc_site(out.exc)
                    what = (f'{ep} raised {type(out.exc).__name__} on conforming object: hint={node_src} '
                            f'obj={short(x, 200)} conf={cs!r} exc={short(out.exc, 300)}')
                W.violation(key, what, stream, idx,
                            dict(hint=node_src, obj=short(x, 500), conf=cs.kw, draw=r, entry_point=ep))
                return   # one witness per case is enough


def main():
    W = Worker('C01', RULE, assumptions=[
        'full() in vlib/hints.py states the published meaning of each deciding family',
        'configurations other than strategy O0',
        'sampler draws are served through random.getrandbits (counted: draws_served)'])
    quick = W.quick
    depth = 3 if quick else 5
    draw_cap = 6 if quick else 14

    # ---- directed hostile cases (lead worker) ---------------------------------
    if W.is_lead():
        env = hints.env()
        from typing import Any, TypeVar
        env.setdefault('TAnyBound', TypeVar('TAnyBound', bound=Any))
        for i in W.cases('directed', len(DIRECTED)) if W.replay_case else range(len(DIRECTED)):
            hsrc, osrc = DIRECTED[i]
            rng = W.rng('directed', i)
            hint = eval(hsrc, env)
            x = eval(osrc, env)
            for cs in (engine.ConfSpec(), engine.ConfSpec(is_random=False), engine.ConfSpec(strategy='On')):
                check_case(W, 'directed', i, hsrc, hint, None, [x], cs, rng, ['directed:' + hsrc + ' <- ' + osrc], draw_cap)
            W.count('directed_cases')

    # ---- modules whose globals reuse the name of a builtin type (lead worker) ----------------------------------
    # (a command-line module with `def list(): ...` / `def type(): ...`, a variable called `set` ...): hints spelled
    # without that name (typing.List[int], builtins.int) still mean the builtin type
    if W.is_lead():
        import types as _types
        from beartype import beartype as _bt
        shadowed = [('list', 'typing.List[int]', [1, 2]), ('dict', 'typing.Dict[str, int]', {'a': 1}), ('set', 'typing.Set[int]', {1}),
                    ('tuple', 'typing.Tuple[int, ...]', (1,)), ('frozenset', 'typing.FrozenSet[int]', frozenset({1})),
                    ('type', 'typing.Type[builtins.int]', bool), ('int', 'builtins.int', 3), ('str', 'typing.Optional[builtins.str]', 's'),
                    # ... or of a builtin function the generated code calls
                    ('len', 'typing.List[builtins.int]', [1, 2]), ('isinstance', 'typing.List[builtins.int]', [1]),
                    ('next', 'typing.Set[builtins.int]', {1}), ('iter', 'typing.Dict[builtins.str, builtins.int]', {'a': 1})]
        for i in (W.cases('shadow', len(shadowed)) if W.replay_case else range(len(shadowed))):
            name, hsrc, obj = shadowed[i]
            for form in ('def', 'value'):
                modname = f'_c01_shadow_{name}_{form}'
                mod = _types.ModuleType(modname)
                sys.modules[modname] = mod
                src = ('import builtins, typing\n'
                       + (f'def {name}():\n    return "the {name} command"\n' if form == 'def' else f'{name} = "just a variable"\n')
                       + f'def f(x: {hsrc}) -> {hsrc}:\n    return x\n')
                try:
                    exec(src, mod.__dict__)
                    W.evaluate(('shadow', name, form))
                    W.count('shadowed_builtin_cases')
                    W.count('checks')
                    try:
                        got = _bt(mod.f)(obj)
                        if got is not obj:
                            raise AssertionError('return value not the object passed')
                    except Exception as e:   # noqa
                        W.violation('false-alarm:module-global-shadows-builtin-name',
                                    f'module defining its own `{name}` ({form}): @beartype def f(x: {hsrc}) called with {obj!r} raised '
                                    f'{type(e).__name__}: {short(engine.strip_ansi(str(e)), 200)}', 'shadow', i, dict(source=src, obj=repr(obj)))
                finally:
                    sys.modules.pop(modname, None)

    # ---- random cases ----------------------------------------------------------
    limit = 400000 if quick else 20000000
    for idx in W.cases('rand', limit):
        rng = W.rng('rand', idx)
        try:
            node = hints.safe_gen_hint(rng, depth)
        except hints.CantGen:
            W.count('hint_gen_failed')
            continue
        cs = engine.gen_conf(rng)
        cx = hints.Cx(tower=cs.tower)
        objs = []
        for _ in range(rng.choice((1, 2, 3))):
            try:
                x = node.gen_in(rng, cx)
            except hints.CantGen:
                W.count('gen_in_failed')
                continue
            try:
                ok = node.full(x, cx)
            except Exception:
                ok = False
            if not ok:
                W.count('gen_in_not_full')     # generator slip: the model decides, skip
                continue
            objs.append(x)
        if not objs:
            continue
        kinds = node.kinds()
        for k in kinds:
            W.add('kinds', k)
        if not node.all_deciding():
            W.count('non_deciding_skipped')
            continue
        W.count('hints')
        W.add('depths', node.depth())
        if len(W.samples) < 3 and node.depth() >= 2:
            W.sample(dict(hint=node.src, obj=short(objs[0], 120), conf=cs.kw))
        if node.depth() >= 2 or node.kind != 'class':
            pass
        check_case(W, 'rand', idx, node.src, node.hint(), None, objs, cs, rng, kinds, draw_cap,
                   nontrivial=(node.depth() >= 2 or node.kind != 'class'))
        if rng.random() < .2 and cs.kw.get('strategy') != 'O0':
            scoped_case(W, idx, rng, node, objs[0], cs)

    W.need('checks', 2000)
    W.need('scoped_scopes', 60)
    W.need('draws_served', 100)
    for ep in engine.ENTRY_POINTS:
        W.need('ep.' + ep, 100)
    W.finish()


guarded(main)

"""C08 - wrapped coroutines, generators and asynchronous generators are
indistinguishable from the originals (DESIGN §4 C08).

Lock-step differential: one generated body is compiled twice into two real
modules, one copy is decorated, the same protocol script is applied to the object
produced by each copy and the outcome of every operation plus the body's
side-effect log are compared after every operation.  Asynchronous objects are
driven by a hand-written `send(None)` loop (no event loop)."""
import gc
import inspect
import itertools
import os
import sys
import types
import warnings

sys.path.insert(0, os.path.dirname(os.path.dirname(os.path.abspath(__file__))))
from vlib.worker import Worker, guarded, short, use_repo

use_repo()
import beartype   # noqa: E402
from beartype import BeartypeConf, BeartypeStrategy   # noqa: E402
from beartype.roar import BeartypeCallHintReturnViolation   # noqa: E402

RULE = ('bodies from a grammar (yield, receive-and-echo, conditional on the received value, try/except around a '
        'suspension point re-raising / swallowing / translating / returning, try/finally logging (with awaits), early '
        'return with value, raise incl. StopIteration / StopAsyncIteration / GeneratorExit, nested loops, delegation to '
        'a helper generator, awaiting ready and suspending hand-written awaitables) for sync generator, async generator '
        'and coroutine functions and methods, annotated with hints the values satisfy (or unannotated return), under '
        'several configurations; scripts of <= 8 operations (next/send/throw/close, anext/asend/athrow/aclose with '
        'optional exception thrown into the pending awaitable, coroutine send/throw/close/run, drop + gc) incl. before '
        'start and after exhaustion, plus all scripts of length <= 3 over a 6-letter alphabet for every 8th body; '
        'compared after every operation: outcome (value | StopIteration value | StopAsyncIteration | exception class, '
        'args, identity with the thrown instance | values seen at suspensions) and the side-effect log and unraisable '
        'exceptions; distinct by (kind, body, hint, script); non-trivial = the script has >= 2 operations')

PLANT_INT_SLOT = 'BAD'       # planted where the hint says int
PLANT_STR_SLOT = -999        # planted where the hint says str


# ---- support objects visible in every generated module -------------------------------
class MyErr(Exception):
    pass


class Other(Exception):
    pass


class MyBase(BaseException):
    pass


class Susp:
    """Awaitable suspending exactly once: hands `v` to the driver, evaluates to what the driver sends back."""
    __slots__ = ('v',)

    def __init__(self, v):
        self.v = v

    def __await__(self):
        r = yield self.v
        return r


class Ready:
    """Awaitable that never suspends."""
    __slots__ = ('v',)

    def __init__(self, v):
        self.v = v

    def __await__(self):
        return self.v
        yield   # pragma: no cover  (makes this a generator function)


def sub(log):
    log.append('sub-start')
    try:
        r = yield 100
        log.append(('sub-got', r))
        yield 101
    finally:
        log.append('sub-fin')
    return 'subret'


async def asub(log):
    log.append('asub-start')
    try:
        yield 100
        await Ready(0)
        yield 101
    finally:
        log.append('asub-fin')


async def cosub(log):
    log.append('cosub-start')
    try:
        r = await Susp(100)
        log.append(('cosub-got', r))
    finally:
        log.append('cosub-fin')
    return 5


SUPPORT = dict(MyErr=MyErr, Other=Other, MyBase=MyBase, Susp=Susp, Ready=Ready, sub=sub, asub=asub, cosub=cosub)

PRELUDE = ('import typing\n'
           'from typing import Any, Never, NoReturn, Optional, Union\n'
           'from collections.abc import (Generator, Iterator, Iterable, AsyncGenerator, AsyncIterator, AsyncIterable, '
           'Coroutine)\n')

# exception specs thrown by scripts: label -> factory (a fresh object per side)
THROWABLE = {
    'MyErr(t,1)': lambda: MyErr('t', 1),
    'MyErr-class': lambda: MyErr,
    'ValueError(v)': lambda: ValueError('v'),
    'KeyError(k)': lambda: KeyError('k'),
    'Other(o)': lambda: Other('o'),
    'StopIteration(si)': lambda: StopIteration('si'),
    'StopIteration-class': lambda: StopIteration,
    'StopAsyncIteration(sai)': lambda: StopAsyncIteration('sai'),
    'GeneratorExit()': lambda: GeneratorExit(),
    'GeneratorExit-class': lambda: GeneratorExit,
    'MyBase(b)': lambda: MyBase('b'),
}
THROW_LABELS = sorted(THROWABLE)
SEND_VALUES = (None, None, 7, 3, 0, 41)


def is_ge(label):
    return label.startswith('GeneratorExit')


# ---- body grammar ---------------------------------------------------------------------
def ind(lines):
    return ['    ' + l_ for l_ in lines]


class Body:
    def __init__(self, rng, kind):
        self.rng, self.kind = rng, kind
        self.n = 0
        self.features = set()

    def fresh(self):
        self.n += 1
        return self.n

    def susp(self, v):
        """Statement-level suspension expression."""
        return f'yield {v}' if self.kind != 'coroutine' else f'await Susp({v})'

    def ret(self):
        if self.kind == 'generator':
            return f"return 'r{self.fresh()}'"
        if self.kind == 'asyncgen':
            return 'return'
        return f'return {self.fresh()}'

    def raise_stmt(self):
        r = self.rng
        pool = ["MyErr('b', %d)" % self.fresh(), "ValueError('bv')", "Other('bo')", "KeyError('bk')"]
        if r.random() < .3:
            pool = ["StopIteration('bsi')", "StopAsyncIteration('bsai')", 'GeneratorExit()', "MyBase('bb')"]
            self.features.add('raise-special')
        return 'raise ' + r.choice(pool)

    def block(self, depth, need_susp=False):
        r = self.rng
        out = []
        for _ in range(r.randint(1, 4 if depth == 0 else 3)):
            lines, terminal = self.stmt(depth)
            out += lines
            if terminal:
                break
        if need_susp and not any(('yield' in l_ or 'Susp(' in l_ or 'cosub' in l_) for l_ in out):
            # (only at the start or the end: any other index may fall inside a compound statement)
            at_end = bool(out) and not out[-1].lstrip().startswith(('return', 'raise')) and r.random() < .5
            out.insert(len(out) if at_end else 0, self.susp(self.fresh()))
        return out

    def stmt(self, depth):
        r, k = self.rng, self.kind
        choices = [('mark', 2), ('yield', 5), ('recv', 5), ('return', 1), ('raise', 1)]
        if depth < 2:
            choices += [('tryexc', 5), ('tryfin', 4), ('loop', 2), ('deleg', 1)]
        if k != 'generator':
            choices += [('await', 3)]
        names, weights = zip(*choices)
        what = r.choices(names, weights)[0]
        self.features.add(what)
        if what == 'mark':
            return [f"log.append('m{self.fresh()}')"], False
        if what == 'yield':
            return [self.susp(self.fresh())], False
        if what == 'recv':
            lines = [f'x = {self.susp(self.fresh())}', "log.append(('got', x))"]
            extra = r.choice(('none', 'echo', 'cond-return', 'cond-raise', 'cond-yield'))
            if extra == 'echo':
                lines.append(self.susp('(-1 if x is None else x)'))
            elif extra == 'cond-return':
                lines += ['if x == 7:', '    ' + self.ret()]
            elif extra == 'cond-raise':
                lines += ['if x == 7:', "    raise MyErr('seven')"]
            elif extra == 'cond-yield':
                lines += ['if x:', '    ' + self.susp(self.fresh())]
            self.features.add('recv-' + extra)
            return lines, False
        if what == 'return':
            return [self.ret()], True
        if what == 'raise':
            return [self.raise_stmt()], True
        if what == 'await':
            if r.random() < .5:
                return [f'await Ready({self.fresh()})'], False
            return [f'w = await Susp({self.fresh()})', "log.append(('aw', w))"], False
        if what == 'loop':
            v = f'i{depth}'
            inner = self.block(depth + 1, need_susp=r.random() < .8)
            if r.random() < .5 and k != 'coroutine':
                inner.append(f'yield 1000 + {v}')
            return [f'for {v} in range({r.randint(2, 3)}):'] + ind(inner), False
        if what == 'deleg':
            if k == 'generator':
                return ['z = yield from sub(log)', "log.append(('yf', z))"], False
            if k == 'asyncgen':
                return ['async for z in asub(log):', '    yield z'], False
            return ['z = await cosub(log)', "log.append(('cs', z))"], False
        if what == 'tryfin':
            inner = self.block(depth + 1, need_susp=r.random() < .9)
            fin = [f"log.append('fin{self.fresh()}')"]
            p = r.random()
            if k != 'generator' and p < .35:
                fin.append(f'await Ready({self.fresh()})')
            elif k != 'generator' and p < .55:
                fin.append(f'await Susp({self.fresh()})')
                fin.append(f"log.append('fin-after-await{self.fresh()}')")
                self.features.add('suspending-await-in-finally')
            elif p < .62:
                fin.append(self.susp(self.fresh()))          # may yield while handling GeneratorExit: excluded when it does
                self.features.add('yield-in-finally')
            elif p < .70:
                fin.append(self.ret())                        # swallows whatever is in flight
                self.features.add('return-in-finally')
            elif p < .75:
                fin.append("raise Other('from-finally')")
                self.features.add('raise-in-finally')
            return ['try:'] + ind(inner) + ['finally:'] + ind(fin), False
        # tryexc
        inner = self.block(depth + 1, need_susp=True)
        exc = r.choice(('MyErr', 'MyErr', 'ValueError', 'Exception', '(MyErr, KeyError)', 'GeneratorExit', 'BaseException',
                        'StopIteration' if k != 'asyncgen' else 'StopAsyncIteration', 'RuntimeError'))
        handler = ["log.append(('caught', type(e).__name__, e.args))"]
        action = r.choice(('reraise', 'reraise', 'swallow', 'swallow', 'raise-other', 'raise-from', 'return', 'yield'))
        if action == 'reraise':
            handler.append('raise')
        elif action == 'raise-other':
            handler.append("raise Other('from-handler')")
        elif action == 'raise-from':
            handler.append("raise Other('chained') from e")
        elif action == 'return':
            handler.append(self.ret())
        elif action == 'yield':
            handler.append(self.susp(self.fresh()))
        self.features.add('handler-' + action)
        if exc in ('GeneratorExit', 'BaseException'):
            self.features.add('catches-GeneratorExit')
        lines = ['try:'] + ind(inner) + [f'except {exc} as e:'] + ind(handler)
        if r.random() < .2:
            lines += ['else:', f"    log.append('else{self.fresh()}')"]
        return lines, False


def make_source(rng, kind, plant):
    """-> (source text, return hint text or None, info dict)"""
    b = Body(rng, kind)
    lines = b.block(0)
    explicit_end = rng.random() < .6 or kind == 'coroutine'
    ends_terminal = bool(lines) and lines[-1].startswith(('return', 'raise'))
    planted = None
    if kind == 'coroutine':
        if not ends_terminal:
            lines.append(f"return {PLANT_INT_SLOT!r}" if plant else b.ret())
            planted = 'return' if plant else None
        elif plant:
            # plant in front of the terminal statement and in every early int return
            lines = [(l_.split('return')[0] + f'return {PLANT_INT_SLOT!r}') if l_.lstrip().startswith('return ') else l_
                     for l_ in lines]
            planted = 'return' if any(repr(PLANT_INT_SLOT) in l_ for l_ in lines) else None
    else:
        if explicit_end and not ends_terminal:
            lines.append(b.ret())
        if plant:
            if kind == 'generator' and rng.random() < .4 and lines[-1].startswith("return '"):
                lines[-1] = f'return {PLANT_STR_SLOT}'
                planted = 'return'
            else:
                top = [i for i, l_ in enumerate(lines) if not l_.startswith((' ', 'except', 'finally', 'else'))]
                lines.insert(rng.choice(top[:3]), f'yield {PLANT_INT_SLOT!r}')
                planted = 'yield'
    if kind != 'coroutine' and not any('yield' in l_ for l_ in lines):
        lines.insert(0, 'yield 0')
    # return hint
    falls_through = not lines[-1].startswith(('return', 'raise'))
    if kind == 'generator':
        R = 'Optional[str]' if (falls_through or rng.random() < .3) else 'str'
        pool = [f'Generator[int, Any, {R}]', f'typing.Generator[int, Any, {R}]', f'Generator[int, Optional[int], {R}]',
                'Iterator[int]', 'Iterable[int]', 'typing.Iterator[int]', f"'Generator[int, Any, {R}]'"]
        if planted == 'return':
            pool = [f'Generator[int, Any, str]', f"'Generator[int, Any, str]'"]
    elif kind == 'asyncgen':
        pool = ['AsyncGenerator[int, Any]', 'typing.AsyncGenerator[int, Any]', 'AsyncGenerator[int, Optional[int]]',
                'AsyncIterator[int]', 'AsyncIterable[int]', 'typing.AsyncIterator[int]', "'AsyncGenerator[int, Any]'"]
    else:
        pool = ['int', 'int', "'int'", 'Coroutine[Any, Any, int]', 'typing.Coroutine[Any, Any, int]', 'Union[int, bytes]']
    p = rng.random()
    if kind == 'coroutine' and not planted and rng.random() < .12:
        # a coroutine that never returns normally (every return became a raise), annotated as such: the body must
        # still run, suspend, receive thrown exceptions and clean up exactly like the undecorated one
        hint = rng.choice(['NoReturn', 'Never', 'Coroutine[Any, Any, NoReturn]', 'typing.Coroutine[Any, Any, Never]', "'NoReturn'"])
        lines = [(l_[:len(l_) - len(l_.lstrip())] + "raise MyErr('never-returns', 0)") if l_.lstrip().startswith('return') else l_
                 for l_ in lines]
        b.features.add('never-returns')
    elif planted or p < .72:
        hint = rng.choice(pool)
    elif p < .86:
        hint = None                      # unannotated return: the "unchecked" wrapper code path
    else:
        hint = rng.choice(('Any', 'object'))
    method = rng.random() < .2
    future = rng.random() < .2
    wraps = None
    if not method and rng.random() < .15:
        # the decorated callable is a functools.wraps pass-through closure (*args, **kwargs) of this kind around a
        # function of ANOTHER kind (asyncify / to-generator adapters): its kind is the closure's, not the wrappee's
        wraps = rng.choice([k for k in ('function', 'generator', 'coroutine', 'asyncgen') if k != kind])
        inner = {'function': ['def _inner(log: list)%s:', '    return None'],
                 'generator': ['def _inner(log: list)%s:', '    yield 0'],
                 'coroutine': ['async def _inner(log: list)%s:', '    return 0'],
                 'asyncgen': ['async def _inner(log: list)%s:', '    yield 0']}[wraps]
        inner[0] = inner[0] % (f' -> {hint}' if hint else '')
        head = ('async ' if kind != 'generator' else '') + 'def f(*args, **kwargs):'
        fn = inner + ['@functools.wraps(_inner)', head] + ind(['log = args[0]'] + lines)
    else:
        head = ('async ' if kind != 'generator' else '') + 'def f(' + ('self, ' if method else '') + 'log: list' + \
               (', flag: bool = False' if rng.random() < .3 else '') + ')' + (f' -> {hint}' if hint else '') + ':'
        fn = [head] + ind(lines)
    if method:
        fn = ['class K:'] + ind(fn)
    src = ('from __future__ import annotations\n' if future else '') + 'import functools\n' + PRELUDE + '\n'.join(fn) + '\n'
    info = dict(features=sorted(b.features), planted=planted, method=method, future=future, wraps=wraps,
                has_finally='tryfin' in b.features, has_tryexc='tryexc' in b.features,
                susp_in_finally='suspending-await-in-finally' in b.features)
    return src, hint, info


# ---- running one operation ------------------------------------------------------------
_unraisable = []


def _hook(u):
    _unraisable.append((type(u.exc_value).__name__, str(u.exc_value)))


def take_unraisable():
    out = tuple(_unraisable)
    del _unraisable[:]
    return out


def mk_exc(label):
    return THROWABLE[label]()


def exc_outcome(e, thrown, extra=()):
    return ('raise', type(e), e.args, (thrown is not None and e is thrown)) + tuple(extra)


def op_generator(g, op):
    name = op[0]
    thrown = None
    try:
        if name == 'next':
            return ('value', next(g))
        if name == 'send':
            return ('value', g.send(op[1]))
        if name == 'throw':
            thrown = mk_exc(op[1])
            return ('value', g.throw(thrown))
        if name == 'close':
            return ('closed', g.close())
        raise AssertionError(op)
    except StopIteration as e:
        if thrown is not None and e is thrown:
            return exc_outcome(e, thrown)
        return ('stop', e.value)
    except BaseException as e:   # noqa
        return exc_outcome(e, thrown)
    finally:
        thrown = g = None     # no exception <-> frame cycle may keep the object alive


def drive(aw, interrupt=None, thrown=None):
    """Minimal driver of an awaitable: send(None), then send(11), send(22) ... at every suspension; optionally throw
    an exception into the awaitable at its first suspension (what a cancelling event loop does).  `thrown` is the
    instance the awaitable was created with (athrow), for the identity flag of the outcome."""
    seen = []
    intr = None
    try:
        v = aw.send(None)
        while True:
            seen.append(v)
            if len(seen) > 40:
                aw.close()
                return ('runaway', tuple(seen))
            if interrupt is not None and len(seen) == 1:
                intr = mk_exc(interrupt)
                v = aw.throw(intr)
            else:
                v = aw.send(11 * len(seen))
    except StopIteration as e:
        if e is thrown or e is intr:
            return exc_outcome(e, e, (tuple(seen),))
        return ('value', e.value, tuple(seen))
    except StopAsyncIteration as e:
        if e is thrown or e is intr:
            return exc_outcome(e, e, (tuple(seen),))
        return ('stopasync', e.args, tuple(seen))
    except BaseException as e:   # noqa
        return exc_outcome(e, e if (e is thrown or e is intr) else None, (tuple(seen),))
    finally:
        thrown = intr = aw = None     # no exception <-> frame cycle may keep the driven object alive


def op_asyncgen(ag, op):
    name = op[0]
    interrupt = op[2] if len(op) > 2 else None
    if name == 'anext':
        return drive(ag.__anext__() if not op[1] else anext(ag), interrupt)
    if name == 'asend':
        return drive(ag.asend(op[1]), interrupt)
    if name == 'athrow':
        thrown = mk_exc(op[1])
        try:
            return drive(ag.athrow(thrown), interrupt, thrown)
        finally:
            thrown = None
    if name == 'aclose':
        return drive(ag.aclose(), interrupt)
    raise AssertionError(op)


def op_coroutine(c, op):
    name = op[0]
    thrown = None
    try:
        if name == 'step':
            return ('susp', c.send(op[1]))
        if name == 'throw':
            thrown = mk_exc(op[1])
            return ('susp', c.throw(thrown))
        if name == 'close':
            return ('closed', c.close())
        if name == 'run':
            out = drive(c)
            return ('stop', out[1], out[2]) if out[0] == 'value' else out
        raise AssertionError(op)
    except StopIteration as e:
        if thrown is not None and e is thrown:
            return exc_outcome(e, thrown)
        return ('stop', e.value)
    except BaseException as e:   # noqa
        return exc_outcome(e, thrown)
    finally:
        thrown = c = None


APPLY = dict(generator=op_generator, asyncgen=op_asyncgen, coroutine=op_coroutine)


def delivers_generator_exit(op):
    return op[0] in ('close', 'aclose', 'drop') or (op[0] in ('throw', 'athrow') and is_ge(op[1])) or \
        (len(op) > 2 and op[2] is not None and is_ge(op[2]))


def yielded_on_generator_exit(op, out, unraisable):
    """Did the ORIGINAL object yield in response to a GeneratorExit?  (excluded by the property)"""
    if any('ignored GeneratorExit' in m for _, m in unraisable):
        return True
    if not delivers_generator_exit(op):
        return False
    if out[0] in ('value', 'susp'):       # produced a value although a GeneratorExit was thrown in
        return op[0] not in ('close', 'aclose')   # ('value', None) of aclose() is its normal completion
    return out[0] == 'raise' and out[1] is RuntimeError and any('ignored GeneratorExit' in str(a) for a in out[2])


# ---- scripts --------------------------------------------------------------------------
def gen_script(rng, kind):
    n = rng.choice((1, 2, 3, 4, 5, 6, 7, 8, 8))
    ops = []
    for i in range(n):
        p = rng.random()
        if kind == 'generator':
            if p < .36:
                op = ('next',)
            elif p < .58:
                op = ('send', rng.choice(SEND_VALUES))
            elif p < .82:
                op = ('throw', rng.choice(THROW_LABELS))
            elif p < .93:
                op = ('close',)
            else:
                op = ('drop',)
        elif kind == 'asyncgen':
            # (GeneratorExit is never thrown into a pending awaitable: closing the awaitable returned by an operation
            # is not one of the operations of the property; `await` closes its delegate instead of resuming it)
            intr = rng.choice(('MyErr(t,1)', 'ValueError(v)', 'StopAsyncIteration(sai)', 'MyBase(b)')) if rng.random() < .12 else None
            if p < .36:
                op = ('anext', rng.random() < .3, intr)
            elif p < .58:
                op = ('asend', rng.choice(SEND_VALUES), intr)
            elif p < .82:
                op = ('athrow', rng.choice(THROW_LABELS), intr)
            elif p < .93:
                op = ('aclose', None, intr)
            else:
                op = ('drop',)
        else:
            if p < .45:
                op = ('step', rng.choice((None, None, None, 7, 3)))
            elif p < .55:
                op = ('run',)
            elif p < .80:
                op = ('throw', rng.choice(THROW_LABELS))
            elif p < .92:
                op = ('close',)
            else:
                op = ('drop',)
        ops.append(op)
        if op[0] == 'drop':
            break
    return ops


ENUM_ALPHABET = dict(
    generator=[('next',), ('send', 7), ('throw', 'MyErr(t,1)'), ('throw', 'GeneratorExit()'), ('close',), ('drop',)],
    asyncgen=[('anext', False, None), ('asend', 7, None), ('athrow', 'MyErr(t,1)', None), ('athrow', 'StopAsyncIteration(sai)', None),
              ('aclose', None, None), ('drop',)],
    coroutine=[('step', None), ('step', 7), ('throw', 'MyErr(t,1)'), ('throw', 'GeneratorExit()'), ('close',), ('drop',)])


def enum_scripts(kind):
    alpha = ENUM_ALPHABET[kind]
    for n in (1, 2, 3):
        for combo in itertools.product(alpha, repeat=n):
            if any(o[0] == 'drop' for o in combo[:-1]):
                continue
            yield list(combo)


def show_outcome(out):
    return short(tuple(o.__name__ if isinstance(o, type) else o for o in out), 300)


def op_name(op):
    s = op[0]
    if s in ('throw', 'athrow') and is_ge(op[1]):
        s += '(GeneratorExit)'
    if len(op) > 2 and op[2] is not None:
        s += '+interrupt' + ('(GeneratorExit)' if is_ge(op[2]) else '')
    return s


def carries_plant(out):
    return out[0] in ('value', 'stop') and len(out) > 1 and (
        (isinstance(out[1], str) and out[1] == PLANT_INT_SLOT) or (isinstance(out[1], int) and out[1] == PLANT_STR_SLOT))


def is_return_violation(out):
    return out[0] == 'raise' and isinstance(out[1], type) and issubclass(out[1], BeartypeCallHintReturnViolation)


CONFS = [
    ('default', None),
    ('default', None),
    ('conf()', BeartypeConf()),
    ('On', BeartypeConf(strategy=BeartypeStrategy.On)),
    ('tower', BeartypeConf(is_pep484_tower=True)),
    ('no-color', BeartypeConf(is_color=False)),
]

_modseq = [0]


def build(src, decorate, info, tag):
    """exec the source into a fresh registered module; -> (module, factory taking a log)"""
    _modseq[0] += 1
    name = f'c08_{tag}_{os.getpid()}_{_modseq[0]}'
    mod = types.ModuleType(name)
    mod.__dict__.update(SUPPORT)
    sys.modules[name] = mod
    exec(compile(src, f'<{name}>', 'exec'), mod.__dict__)
    if info['method']:
        cls = mod.K
        if decorate is not None:
            cls = decorate(cls)
        fn = cls.f
        inst = cls()
        return name, fn, (lambda log: inst.f(log))
    fn = mod.f
    if decorate is not None:
        fn = decorate(fn)
    return name, fn, fn


KIND_PREDICATES = (('isgeneratorfunction', inspect.isgeneratorfunction), ('isasyncgenfunction', inspect.isasyncgenfunction),
                   ('iscoroutinefunction', inspect.iscoroutinefunction))
OBJ_PREDICATES = (('isgenerator', inspect.isgenerator), ('isasyncgen', inspect.isasyncgen), ('iscoroutine', inspect.iscoroutine),
                  ('isawaitable', inspect.isawaitable))


def main():
    W = Worker('C08', RULE, assumptions=[
        'scripts whose undecorated object yields in response to a GeneratorExit (value from throw(GeneratorExit), '
        '"ignored GeneratorExit" from close / finalisation) are excluded from that operation on, as the property states',
        'asynchronous objects are driven without an event loop: no asyncgen hooks are installed, suspensions are '
        'answered with fixed values',
        'return checking is asserted for coroutine functions (awaited value against the hint); for generator and '
        'async generator functions planted yield / return-value violations are only counted (either outcome accepted)',
        'tracebacks, __context__/__cause__ and gi_*/ag_*/cr_* introspection are not compared'])
    warnings.simplefilter('ignore')
    sys.unraisablehook = _hook
    gc.collect()
    gc.freeze()
    quick = W.quick
    limit = 16000 if quick else 400000
    nscripts = 20 if quick else 50

    for idx in W.cases('body', limit, frac=.92):
        rng = W.rng('body', idx)
        kind = rng.choice(('generator', 'asyncgen', 'asyncgen', 'coroutine'))
        plant = rng.random() < (.3 if kind == 'coroutine' else .12)
        try:
            src, hint, info = make_source(rng, kind, plant)
            compile(src, '<c08>', 'exec')
        except Exception as e:   # noqa
            W.violation('harness-error', f'generating a body raised {e!r}', 'body', idx, None)
            continue
        confname, conf = rng.choice(CONFS)
        decorate = beartype.beartype if conf is None else beartype.beartype(conf=conf)
        enum_mode = rng.random() < .125
        names = []
        base_w = dict(kind=kind, hint=hint, conf=confname, method=info['method'], source=src)
        try:
            try:
                n0, fn_o, make_o = build(src, None, info, 'o')
                names.append(n0)
            except Exception as e:   # noqa
                W.violation('harness-error', f'building the undecorated copy raised {e!r}', 'body', idx, base_w)
                continue
            try:
                n1, fn_d, make_d = build(src, decorate, info, 'd')
                names.append(n1)
            except Exception as e:   # noqa
                names.append(f'c08_d_{os.getpid()}_{_modseq[0]}')
                twice = info['future'] and bool(hint) and hint.startswith("'")
                W.violation('decoration-raised:' + kind + ':' + type(e).__name__ + (':quoted-hint-under-future-annotations' * twice),
                            f'decorating a {kind} function annotated -> {hint} raised {short(e, 300)}', 'body', idx, base_w)
                continue
            W.count('bodies')
            W.count('bodies.' + kind)
            if info['wraps']:
                W.count('bodies_that_are_wraps_closures_around_another_kind')
                W.count(f'wraps.{kind}-closure-around-{info["wraps"]}')
                base_w['decorated'] = f'functools.wraps closure around a {info["wraps"]}'
            W.add('hints', f'{kind}:{hint}')
            W.add('confs', confname)
            for f_ in info['features']:
                W.add('features', f_)
            if info['has_finally']:
                W.count('bodies_with_try_finally')
            if info['has_tryexc']:
                W.count('bodies_with_try_except')
            if fn_d is fn_o or getattr(fn_d, '__wrapped__', None) is None and fn_d.__code__ is fn_o.__code__:
                W.count('bodies_not_wrapped')
            if len(W.samples) < 3:
                W.sample(dict(kind=kind, hint=hint, conf=confname, source=src.split('\n', 3)[-1] if not info['future'] else src))

            # -- kind preservation
            for pname, pred in KIND_PREDICATES:
                a, b = pred(fn_o), pred(fn_d)
                W.count('kind_predicates_compared')
                if a != b:
                    W.violation('kind-changed:' + kind, f'inspect.{pname}: original {a}, decorated {b} ({kind} function -> {hint}, '
                                f'conf {confname})', 'body', idx, base_w)
            # -- scripts
            scripts = enum_scripts(kind) if enum_mode else (gen_script(rng, kind) for _ in range(nscripts))
            reported = set()
            for script in scripts:
                if W.time_left() < 0.5 and W.replay_case is None:
                    break
                run_script(W, idx, kind, hint, info, script, make_o, make_d, base_w, reported, enum_mode)
        finally:
            for n_ in names:
                sys.modules.pop(n_, None)

    W.need('scripts.generator', 400)
    W.need('scripts.asyncgen', 400)
    W.need('scripts.coroutine', 400)
    W.need('ops_compared', 5000)
    W.need('ops_compared.asyncgen', 1500)
    W.need('bodies_with_try_finally', 50)
    W.need('finalisation_effects_compared', 200)
    W.need('planted_coroutine_return_violations', 40)
    W.need('planted_coroutine_return_violations_detected', 40)
    W.need('ops_after_exhaustion', 300)
    W.need('throw_before_start', 50)
    W.need('send_non_none_before_start', 30)
    W.need('dropped_without_close', 100)
    W.need('close_mid_stream', 100)
    W.need('kind_predicates_compared', 300)
    W.need('bodies_that_are_wraps_closures_around_another_kind', 30)
    W.finish()


def run_script(W, idx, kind, hint, info, script, make_o, make_d, base_w, reported, enum_mode):
    apply = APPLY[kind]
    log_o, log_d = [], []
    take_unraisable()
    try:
        obj_o = [make_o(log_o)]
        obj_d = [make_d(log_d)]
    except Exception as e:   # noqa
        if 'call-raised' not in reported:
            reported.add('call-raised')
            W.violation('call-raised:' + kind, f'calling the function raised {short(e, 300)}', 'body', idx, base_w)
        return
    W.count('scripts.' + kind)
    W.count('scripts')
    if enum_mode:
        W.count('scripts_enumerated')
    W.evaluate((kind, base_w['source'], hint, base_w['conf'], tuple(script)) if len(script) >= 2 else None)
    for pname, pred in OBJ_PREDICATES:
        a, b = pred(obj_o[0]), pred(obj_d[0])
        if a != b and ('objkind', pname) not in reported:
            reported.add(('objkind', pname))
            W.violation('object-kind-changed:' + kind, f'inspect.{pname} of the produced object: original {a}, decorated {b}',
                        'body', idx, base_w)
    fresh, done = True, False
    trace = []
    planted_seen = False

    def witness(i, op, out_o, out_d):
        return dict(base_w, script=[list(map(str, o)) for o in script], failing_operation=i,
                    trace=trace[-8:], original=show_outcome(out_o), decorated=show_outcome(out_d),
                    log_original=short(log_o, 400), log_decorated=short(log_d, 400))

    def report(key, what, i, op, out_o, out_d):
        if key in reported:
            W.count('violations_suppressed_same_body')
            return
        reported.add(key)
        W.violation(key, what, 'body', idx, witness(i, op, out_o, out_d))

    ops = list(script)
    if ops[-1][0] != 'drop':
        ops.append(('drop', 'final'))
    for i, op in enumerate(ops):
        before = len(log_o)
        if op[0] == 'drop':
            obj_o[0] = None
            gc.collect()
            unr_o = take_unraisable()
            obj_d[0] = None
            gc.collect()
            unr_d = take_unraisable()
            out_o, out_d = ('dropped',), ('dropped',)
        else:
            out_o = apply(obj_o[0], op)
            unr_o = take_unraisable()
            out_d = apply(obj_d[0], op)
            unr_d = take_unraisable()
        # reach counters (from the original's behaviour)
        opn = op_name(op)
        W.add('operations', kind + ':' + opn)
        if op[0] in ('throw', 'athrow') and fresh:
            W.count('throw_before_start')
        if op[0] in ('close', 'aclose') and fresh:
            W.count('close_before_start')
        if op[0] in ('send', 'asend', 'step') and op[1] is not None and fresh:
            W.count('send_non_none_before_start')
        if done and op[0] != 'drop':
            W.count('ops_after_exhaustion')
        if op[0] in ('close', 'aclose') and not fresh and not done:
            W.count('close_mid_stream')
        if op[0] == 'drop' and not fresh and not done:
            W.count('dropped_without_close')
        if len(op) > 2 and op[2] is not None:
            W.count('interrupted_awaitables')
        # exclusion: the original yielded while handling GeneratorExit
        if yielded_on_generator_exit(op, out_o, unr_o):
            W.count('scripts_excluded_yield_on_GeneratorExit')
            break
        W.count('ops_compared')
        W.count('ops_compared.' + kind)
        if op[0] in ('close', 'aclose', 'drop') and len(log_o) > before:
            W.count('finalisation_effects_compared')
        trace.append(f'{opn}{list(map(str, op[1:]))} -> {show_outcome(out_o)}')
        same = (out_o == out_d)
        plant_here = bool(info['planted']) and carries_plant(out_o)
        if plant_here:
            planted_seen = True
            if kind == 'coroutine' and out_o[0] == 'stop':
                W.count('planted_coroutine_return_violations')
                if is_return_violation(out_d):
                    W.count('planted_coroutine_return_violations_detected')
                    if log_o != log_d:
                        report('side-effects-differ:' + kind + ':' + opn, f'logs differ after operation {i} ({opn}) where the return '
                               'violation was reported', i, op, out_o, out_d)
                        break
                    fresh, done = False, True
                    continue
                if same:
                    report('return-violation-not-reported:coroutine', f'coroutine function annotated -> {hint} returned '
                           f'{out_o[1]!r}; the decorated coroutine completed with it instead of raising '
                           'BeartypeCallHintReturnViolation', i, op, out_o, out_d)
                    break
            elif kind != 'coroutine':
                if is_return_violation(out_d):
                    W.count(f'planted_{kind}_{info["planted"]}_violation_detected')
                    break
                if same:
                    W.count(f'planted_{kind}_{info["planted"]}_violation_not_checked')
        if not same:
            if is_return_violation(out_d) and not info['planted']:
                report('false-return-violation:' + kind, f'operation {i} ({opn}): the decorated object raised a return '
                       f'violation for a value satisfying -> {hint}: {show_outcome(out_d)}', i, op, out_o, out_d)
            elif delivers_generator_exit(op) and op[0] in ('throw', 'athrow') and out_d[0] == 'raise' and \
                    out_d[1] is GeneratorExit and (out_o[0] in ('stop', 'stopasync') or
                                                   (out_o[0] == 'raise' and out_o[1] is GeneratorExit)):
                # explanatory key: the body swallowed the GeneratorExit thrown by the caller and finished (or raised
                # a GeneratorExit of its own); the delegating wrapper (yield from / await / the PEP 525 loop) closes
                # the inner object instead of throwing into it and re-raises the caller's instance
                report('thrown-GeneratorExit-swallowed-by-body-reraised-by-wrapper:' + kind, f'operation {i} ({opn}): the body '
                       f'caught the GeneratorExit thrown in and finished: original -> {show_outcome(out_o)}, decorated -> '
                       f'{show_outcome(out_d)}', i, op, out_o, out_d)
            else:
                report('outcome-differs:' + kind + ':' + opn, f'operation {i} ({opn}) of the script: original -> '
                       f'{show_outcome(out_o)}, decorated -> {show_outcome(out_d)}', i, op, out_o, out_d)
            break
        if log_o != log_d:
            report('side-effects-differ:' + kind + ':' + opn, f'side-effect logs differ after operation {i} ({opn}): original '
                   f'{short(log_o, 300)}, decorated {short(log_d, 300)}', i, op, out_o, out_d)
            break
        if unr_o != unr_d:
            W.count('unraisable_sets_differing')
            only_sai = (kind == 'asyncgen' and op[0] == 'drop' and not unr_d and unr_o == (('StopAsyncIteration', ''),))
            report('unraisable-StopAsyncIteration-of-original-absent:asyncgen:drop' if only_sai else
                   'unraisable-differs:' + kind + ':' + opn, f'exceptions handed to sys.unraisablehook during operation {i} ({opn}) '
                   f'differ: original {unr_o}, decorated {unr_d} (outcome and logs equal)', i, op, out_o, out_d)
            break
        if unr_o:
            W.count('unraisable_sets_compared_nonempty')
        # state tracking (original)
        if op[0] == 'drop':
            break
        started_now = not (out_o[0] == 'raise' and out_o[1] is TypeError and fresh)
        if started_now:
            fresh = False
        if out_o[0] in ('stop', 'stopasync', 'raise', 'closed'):
            if not (out_o[0] == 'raise' and out_o[1] is TypeError and not started_now):
                done = True
    # nothing of this script may be finalised during the next one
    if obj_o[0] is not None or obj_d[0] is not None:
        obj_o[0] = obj_d[0] = None
        gc.collect()
    take_unraisable()


guarded(main)

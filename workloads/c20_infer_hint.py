"""C20 - an inferred hint accepts the object it was inferred from (round-trip
monitor with draw sweep, minimisation and mechanism classification; bounded
termination on self-referential containers).  DESIGN §4 C20."""
import collections
import collections.abc as cabc
import dataclasses
import enum
import os
import sys
import types
import typing
import warnings

sys.path.insert(0, os.path.dirname(os.path.dirname(os.path.abspath(__file__))))
from vlib.worker import Worker, guarded, short, use_repo

use_repo()
from vlib import draws

draws.install()
from vlib import hints   # noqa: E402
from beartype import BeartypeConf, BeartypeStrategy   # noqa: E402
from beartype.bite import infer_hint   # noqa: E402
from beartype.door import is_bearable   # noqa: E402
from beartype.roar import BeartypeDoorInferHintRecursionWarning   # noqa: E402

RULE = ('seeded object generator: scalars, nested builtin and collections containers (empty / homogeneous / '
        'heterogeneous / long), dictionary views, ranges, bytes-likes, user-defined Sequence / Mapping / Set / '
        'bare-__iter__ classes, duck-typed classes defining arbitrary subsets of the protocol methods collections.abc '
        'recognises (incl. the full method sets of nominal ABCs), enum members, dataclass and namedtuple instances, callables, modules, and '
        'self-referential containers; h = infer_hint(x) (default configuration, and O1 where the container is '
        'homogeneous), then is_bearable(x, h) under every draw of the sweep; failing objects are minimised to the '
        'smallest failing sub-object and keyed by (kind of that object, head of its inferred hint); distinct by '
        'repr of (type structure of the object); non-trivial = the object is a container, view, user object or callable')


class UserSeq(cabc.Sequence):
    def __init__(self, items=()): self._i = list(items)
    def __len__(self): return len(self._i)
    def __getitem__(self, k): return self._i[k]
    def __repr__(self): return f'UserSeq({self._i!r})'


class UserMap(cabc.Mapping):
    def __init__(self, d=()): self._d = dict(d)
    def __len__(self): return len(self._d)
    def __iter__(self): return iter(self._d)
    def __getitem__(self, k): return self._d[k]
    def __repr__(self): return f'UserMap({self._d!r})'


class UserSet(cabc.Set):
    def __init__(self, items=()): self._i = list(dict.fromkeys(items))
    def __len__(self): return len(self._i)
    def __iter__(self): return iter(self._i)
    def __contains__(self, x): return x in self._i
    def __repr__(self): return f'UserSet({self._i!r})'


class BareIter:
    def __init__(self, items=()): self._i = list(items)
    def __iter__(self): return iter(self._i)
    def __repr__(self): return f'BareIter({self._i!r})'


class BareIterLen(BareIter):
    def __len__(self): return len(self._i)


class Plain:
    def __repr__(self): return 'Plain()'


# duck-typed classes defining an arbitrary subset of the dunder / protocol methods by which collections.abc (and
# infer_hint's protocol probe) recognise containers, iterators, mappings, callables, awaitables ...
DUCK_METHODS = {
    '__iter__': lambda self: iter(self._i),
    '__len__': lambda self: len(self._i),
    '__contains__': lambda self, x: any(x is y for y in self._i),
    '__getitem__': lambda self, i: self._i[i],
    '__reversed__': lambda self: reversed(self._i),
    '__next__': lambda self: next(iter(self._i)),
    '__call__': lambda self, *a, **k: None,
    '__setitem__': lambda self, i, v: None,
    '__delitem__': lambda self, i: None,
    'keys': lambda self: list(range(len(self._i))),
    'values': lambda self: list(self._i),
    'items': lambda self: list(enumerate(self._i)),
    'get': lambda self, k, d=None: d,
    'index': lambda self, v: 0,
    'count': lambda self, v: 0,
    'insert': lambda self, i, v: None,
    'append': lambda self, v: None,
    'add': lambda self, v: None,
    'discard': lambda self, v: None,
    '__enter__': lambda self: self,
    '__exit__': lambda self, *a: None,
    '__aiter__': lambda self: self,
    '__hash__': lambda self: 7,
    '__eq__': lambda self, o: self is o,
    '__lt__': lambda self, o: False,
    '__bool__': lambda self: True,
    '__int__': lambda self: 1,
    '__index__': lambda self: 1,
    '__float__': lambda self: 1.0,
    '__bytes__': lambda self: b'',
    '__abs__': lambda self: 1,
    '__round__': lambda self, n=None: 1,
    '__complex__': lambda self: 1j,
}
_DUCKS = {}


def duck(names, items):
    key = tuple(sorted(names))
    cls = _DUCKS.get(key)
    if cls is None:
        ns = {n: DUCK_METHODS[n] for n in key}
        ns['__init__'] = lambda self, items=(): setattr(self, '_i', list(items))
        ns['__repr__'] = lambda self: f'Duck{list(key)}({self._i!r})'
        ns['_is_duck'] = True
        cls = _DUCKS[key] = type('Duck_' + '_'.join(n.strip('_') for n in key)[:60], (), ns)
    return cls(items)


def gen_duck(rng, items):
    r = rng.random()
    core = ['__iter__', '__len__', '__contains__', '__getitem__', '__reversed__', '__next__']
    if r < .5:
        names = [n for n in core if rng.random() < .5]
    elif r < .8:
        names = [n for n in core if rng.random() < .5] + rng.sample(sorted(DUCK_METHODS), rng.randint(0, 4))
    else:
        names = rng.sample(sorted(DUCK_METHODS), rng.randint(1, 6))
    return duck(set(names), items)


class Colour(enum.Enum):
    RED = 1
    GREEN = 'g'


class Flag(enum.IntFlag):
    A = 1
    B = 2


class IntE(enum.IntEnum):
    ONE = 1


@dataclasses.dataclass
class DC:
    a: int = 1
    b: str = 'x'


NT = collections.namedtuple('NT', 'x y')


class TNT(typing.NamedTuple):
    x: int
    y: str


def f_plain(a, b=1): return a
def f_ann(a: int, *b: str, c: float = 1.0, **d: bytes) -> list: return []
async def f_async(a: int) -> None: ...
def f_gen(a: int):
    yield a


SCALARS = [0, 1, -5, 2 ** 70, True, False, 0.0, 2.5, float('nan'), 1j, '', 'a', 'hello', b'', b'ab',
           None, Ellipsis, NotImplemented, bytearray(b'x'), memoryview(b'xy'), Colour.RED, Colour.GREEN,
           Flag.A, Flag.A | Flag.B, IntE.ONE, Plain(), DC(), NT(1, 'a'), TNT(1, 'a'), range(0), range(5),
           range(2, 20, 3), slice(1, 2), object(), frozenset(), (), [], {}, set(), 1.5e300, -0.0]
CALLABLES = [f_plain, f_ann, f_async, f_gen, len, print, lambda: 0, lambda a: a, Plain, int, str, dict, Colour,
             str.upper, 'x'.upper, Plain().__repr__, types.SimpleNamespace, isinstance]
MODULES = [os, sys, collections]


def gen_obj(rng, depth=3, hashable=False):
    r = rng.random()
    if depth <= 0 or r < .3:
        pool = SCALARS if not hashable else [s for s in SCALARS if hints.is_hashable(s)]
        q = rng.random()
        if q < .1 and not hashable:
            return rng.choice(CALLABLES)
        if q < .12 and not hashable:
            return rng.choice(MODULES)
        return rng.choice(pool)
    n = rng.choice((0, 1, 1, 2, 3, 3, 5, 9)) if depth >= 2 else rng.choice((0, 1, 2, 3))
    homog = rng.random() < .55
    if homog:
        proto_depth = rng.randint(0, depth - 1)
        seed = rng.getrandbits(32)

        def item(h=False):
            # same generator state shape -> same type structure, different values not needed
            import random as _r
            return gen_obj(_r.Random(seed), proto_depth, h)
    else:
        def item(h=False):
            return gen_obj(rng, rng.randint(0, depth - 1), h)
    kind = rng.choice(('list', 'list', 'tuple', 'tuple', 'set', 'frozenset', 'dict', 'dict', 'deque', 'OrderedDict',
                       'defaultdict', 'Counter', 'ChainMap', 'keys', 'values', 'items', 'UserSeq', 'UserMap',
                       'UserSet', 'BareIter', 'BareIterLen', 'MappingProxy', 'ListSub', 'long-list', 'Duck', 'Duck',
                       # user generics over builtin containers that share one TypeVar (class Bag(list[T]), class Table(dict[T, U])),
                       # nested in each other with different bindings
                       'Bag', 'Table', 'Table'))
    if hashable:
        kind = rng.choice(('tuple', 'frozenset'))
    try:
        if kind == 'list':
            return [item() for _ in range(n)]
        if kind == 'long-list':
            return [item() for _ in range(rng.choice((30, 100)))]
        if kind == 'ListSub':
            return hints.env()['ListSub']([item() for _ in range(n)])
        if kind == 'Bag':
            return hints.env()['Bag']([item() for _ in range(n)])
        if kind == 'Table':
            bag = hints.env()['Bag']
            return hints.env()['Table']({item(True): (bag([item() for _ in range(rng.choice((1, 2)))]) if rng.random() < .6 else item())
                                         for _ in range(max(1, n))})
        if kind == 'tuple':
            return tuple(item(hashable) for _ in range(n))
        if kind == 'set':
            return {item(True) for _ in range(n)}
        if kind == 'frozenset':
            return frozenset(item(True) for _ in range(n))
        if kind == 'deque':
            return collections.deque(item() for _ in range(n))
        if kind == 'UserSeq':
            return UserSeq(item() for _ in range(n))
        if kind == 'UserSet':
            return UserSet(item(True) for _ in range(n))
        if kind == 'BareIter':
            return BareIter(item() for _ in range(n))
        if kind == 'BareIterLen':
            return BareIterLen(item() for _ in range(n))
        if kind == 'Duck':
            return gen_duck(rng, [item() for _ in range(n)])
        d = {item(True): item() for _ in range(n)}
        if kind == 'dict':
            return d
        if kind == 'OrderedDict':
            return collections.OrderedDict(d)
        if kind == 'defaultdict':
            dd = collections.defaultdict(list)
            dd.update(d)
            return dd
        if kind == 'Counter':
            return collections.Counter({k: rng.randint(0, 5) for k in d})
        if kind == 'ChainMap':
            return collections.ChainMap(d, {})
        if kind == 'keys':
            return d.keys()
        if kind == 'values':
            return d.values()
        if kind == 'items':
            return d.items()
        if kind == 'UserMap':
            return UserMap(d)
        if kind == 'MappingProxy':
            return types.MappingProxyType(d)
    except TypeError:
        return [item() for _ in range(n)]
    return None


def children(x):
    try:
        if isinstance(x, (str, bytes, bytearray, memoryview, range)):
            return []
        if isinstance(x, cabc.ItemsView):
            return [p for p in x] + [v for p in x for v in p]
        if isinstance(x, cabc.Mapping):
            return list(x.keys()) + list(x.values())
        if isinstance(x, (cabc.Collection, BareIter)):
            return list(x)
    except Exception:
        pass
    return []


def hint_head(h):
    o = typing.get_origin(h)
    if o is typing.Annotated:
        a = typing.get_args(h)
        return 'Annotated[' + hint_head(a[0]) + ']'
    if o is not None:
        name = getattr(o, '__name__', str(o))
        # a user generic subscripted by another user generic left bare (Table[tuple, Bag]) is a mechanism of its own
        def bare(a, d=0):
            if isinstance(a, type):
                return a.__name__ in ('Bag', 'Table')
            return d < 6 and any(bare(b, d + 1) for b in typing.get_args(a))
        if name in ('Table', 'Bag') and any(bare(a) for a in typing.get_args(h)):
            name += '[bare-user-generic]'
        return name
    if isinstance(h, type):
        return h.__name__ if h.__module__ in ('collections.abc', 'typing', 'builtins', 'collections') else 'class'
    return type(h).__name__


def obj_kind(x):
    if isinstance(x, enum.Enum):
        return 'enum-member'
    t = type(x)
    if getattr(t, '_is_duck', False):
        return 'duck-typed'
    return t.__name__


def type_shape(x, d=0):
    if d > 3:
        return '..'
    cs = children(x)
    if not cs:
        return type(x).__name__
    return type(x).__name__ + '[' + ','.join(sorted({type_shape(c, d + 1) for c in cs})) + ']'


def full_shape(x, budget):
    """Type structure at full depth (no depth cap; bounded by a node budget)."""
    budget[0] -= 1
    if budget[0] < 0:
        raise OverflowError
    cs = children(x)
    if not cs:
        return type(x).__name__
    return type(x).__name__ + '[' + ','.join(sorted({full_shape(c, budget) for c in cs})) + ']'


def deep_homogeneous(x):
    """Every container, at every depth, holds items of one single type structure."""
    try:
        s = full_shape(x, [4000])
    except (OverflowError, RecursionError):
        return False
    return '|' not in s and ',' not in s


def is_hint_like(x):
    return isinstance(x, type) or x is None or type(x).__module__ == 'typing' or isinstance(x, types.GenericAlias)


def roundtrip(x, conf, rng):
    """None if the round trip holds, else (reason, hint)."""
    with warnings.catch_warnings(record=True):
        warnings.simplefilter('always')
        try:
            h = infer_hint(x) if conf is None else infer_hint(x, conf=conf)
        except Exception as e:   # noqa
            return ('infer-raised:' + type(e).__name__, None, e)
    for r in draws.draw_set(rng, hints.seq_lens(x), cap=8, extra_random=1):
        with draws.armed(r):
            try:
                ok = is_bearable(x, h)
            except Exception as e:   # noqa
                return ('check-raised:' + type(e).__name__, h, e)
        if ok is not True:
            return ('rejected', h, None)
    return None


def main():
    W = Worker('C20', RULE, assumptions=[
        'objects that are themselves type hints (classes, None, typing objects) are recorded, not decided',
        'an explicit O1 configuration infers from one item by design: only homogeneous containers are decided there',
        'termination is decided on Python function calls counted by sys.setprofile, never on wall-clock'])
    quick = W.quick
    depth = 3 if quick else 4
    limit = 300000 if quick else 20000000
    conf_o1 = BeartypeConf(strategy=BeartypeStrategy.O1)
    rng0 = W.rng('fixed', 0)

    def decide(stream, idx, x, conf, rng, label):
        res = roundtrip(x, conf, rng)
        W.count('roundtrips')
        if res is None:
            W.count('roundtrips_held')
            return
        # minimise: descend while some child still fails on its own, else drop
        # items / hoist grandchildren while the container still fails
        cur, cres = x, res

        def attempt(cand):
            if cand is None or is_hint_like(cand):
                return None
            return roundtrip(cand, conf, rng)

        def rebuilt(c, items):
            t = type(c)
            try:
                if t in (list, tuple, set, frozenset, collections.deque):
                    return t(items)
                if t is dict:
                    return dict(items)
            except Exception:
                return None
            return None
        # smallest descendant that fails on its own (sampling may hide a bad item of a
        # long sequence from its parents, so every descendant is tried, leaves first)
        for _round in range(6):
            desc, frontier, seen_ids = [], [cur], set()
            while frontier and len(desc) < 4000:
                nxt_frontier = []
                for o in frontier:
                    for c in children(o):
                        if id(c) not in seen_ids:
                            seen_ids.add(id(c))
                            desc.append(c)
                            nxt_frontier.append(c)
                frontier = nxt_frontier
            found = None
            for c in sorted(desc, key=lambda o: len(children(o))):
                r2 = attempt(c)
                if r2 is not None:
                    found = (c, r2)
                    break
            if found is None:
                break
            cur, cres = found
        for _ in range(60):
            step = None
            for c in children(cur):
                r2 = attempt(c)
                if r2 is not None:
                    step = (c, r2)
                    break
            if step is None and type(cur) in (list, tuple, set, frozenset, collections.deque, dict):
                items = list(cur.items()) if type(cur) is dict else list(cur)
                for i in range(len(items)):
                    cand = rebuilt(cur, items[:i] + items[i + 1:])
                    r2 = attempt(cand)
                    if r2 is not None:
                        step = (cand, r2)
                        break
                if step is None and type(cur) in (list, tuple):
                    for i, it in enumerate(items):
                        for g in children(it):
                            cand = rebuilt(cur, items[:i] + [g] + items[i + 1:])
                            r2 = attempt(cand)
                            if r2 is not None:
                                step = (cand, r2)
                                break
                        if step:
                            break
            if step is None:
                break
            cur, cres = step
        reason, h, exc = cres
        head = hint_head(h) if h is not None else 'n/a'
        key = f'{reason}:{obj_kind(cur)}->{head}'
        if reason == 'check-raised:BeartypeDecorHintRecursionException' and 'Recursion detected when generating code' in str(exc):
            # one mechanism whatever the object: the inferred hint has more (transitive) child hints than the code
            # generator's fixed-size hint queue holds; which container happens to be minimal is irrelevant
            key = 'check-raised:inferred-hint-overflows-hint-queue'
        W.violation(key, f'[{label}] is_bearable(x, infer_hint(x)) fails: minimal failing sub-object {short(cur, 120)} '
                         f'inferred as {short(h, 200)} ({reason}); found inside {short(x, 160)}', stream, idx,
                    dict(minimal=short(cur, 300), inferred=short(h, 300), original=short(x, 400), conf=label,
                         exc=short(exc, 200) if exc else None))

    # ---- directed: one object of every family (lead worker) ---------------------------
    if W.is_lead():
        fams = SCALARS + CALLABLES + MODULES + [
            {1: 2}.keys(), {1: 2}.values(), {1: 2}.items(), {}.items(), {'a': [1]}.items(),
            UserSeq([1, 2]), UserMap({1: 'a'}), UserSet([1]), BareIter([1]), BareIterLen([1]),
            collections.deque([1]), collections.OrderedDict(a=1), collections.defaultdict(int, a=1),
            collections.Counter('ab'), collections.ChainMap({'a': 1}), types.MappingProxyType({'a': 1}),
            [1, 'a', None], (1, (2, (3,))), {1, 'a'}, {(1, 2): [3]}, [[], [1]], [(), (1,)], [Colour.RED], {Colour.RED: 1},
            # duck-typed classes with exactly the methods of a structural ABC ...
            duck({'__contains__'}, [1]), duck({'__iter__'}, [1]), duck({'__len__'}, [1]), duck({'__contains__', '__iter__'}, [1]),
            duck({'__contains__', '__iter__', '__len__'}, [1]), duck({'__iter__', '__reversed__'}, [1]), duck({'__iter__', '__next__'}, [1]),
            # ... and of a nominal one (Sequence / Mapping are not structural: isinstance() says no)
            duck({'__getitem__', '__len__', '__contains__', '__iter__', '__reversed__', 'index', 'count'}, [1, 2]),
            duck({'__getitem__', '__len__', '__contains__', '__iter__', 'keys', 'items', 'values', 'get', '__eq__'}, [1, 2]),
        ]
        # a list of 150 structurally different nested items: its inferred hint is a union of 150 subscripted members,
        # more child hints than the code generator's fixed-size hint queue holds (open finding)
        def _nest(v, d, kind):
            for j in range(d):
                v = [v] if (kind >> j) & 1 else ({v} if not isinstance(v, (list, set, tuple)) else (v,))
            return v
        _leaves = [1, 'a', b'b', 1.0, None, True, 2j]
        fams.append([[_nest(_leaves[k % 7], 1 + (k // 7) % 5, k // 35) for k in range(150)]])
        for i, x in enumerate(fams):
            if is_hint_like(x):
                W.count('hint_like_objects_recorded_only')
                continue
            W.evaluate(('d', type_shape(x)))
            decide('directed', i, x, None, rng0, 'default')
            W.count('directed_cases')

        # ---- self-referential containers: termination, warning, round trip ---------------
        def rec_cases():
            a = [1, 2]; a.append(a); yield 'list-in-itself', a, 3
            d = {'k': 1}; d['self'] = d; yield 'dict-value-is-itself', d, 2
            b = []; b.append([b]); yield 'list-in-list-in-itself', b, 2
            t = []; t.append((t, 1)); yield 'tuple-in-list', t, 2
            big = list(range(200)); big.append(big); yield 'long-list-in-itself', big, 201
            dq = collections.deque(); dq.append(dq); yield 'deque-in-itself', dq, 1
            m = [1]; n_ = [m]; m.append(n_); yield 'mutual-lists', m, 3
            dd = collections.defaultdict(list); dd['x'].append(dd); yield 'defaultdict-cycle', dd, 2
        for j, (name, x, size) in enumerate(rec_cases()):
            calls = [0]

            def prof(frame, event, arg):
                if event == 'call':
                    calls[0] += 1
            bound = 20000 + 4000 * size
            with warnings.catch_warnings(record=True) as wl:
                warnings.simplefilter('always')
                sys.setprofile(prof)
                try:
                    h = infer_hint(x)
                    exc = None
                except BaseException as e:   # noqa
                    h, exc = None, e
                finally:
                    sys.setprofile(None)
            W.evaluate(('rec', name))
            W.count('recursive_cases')
            W.count('profile_calls_counted', calls[0])
            if isinstance(exc, RecursionError):
                W.violation('recursive:RecursionError', f'{name}: infer_hint recursed without bound', 'recursive', j, dict(case=name))
                continue
            if exc is not None:
                W.violation('recursive:raised:' + type(exc).__name__, f'{name}: infer_hint raised {exc!r}', 'recursive', j, dict(case=name))
                continue
            if calls[0] > bound:
                W.violation('recursive:too-many-calls', f'{name}: {calls[0]} function calls > bound {bound}', 'recursive', j, dict(case=name, calls=calls[0]))
            if not any(isinstance(w.message, BeartypeDoorInferHintRecursionWarning) for w in wl):
                W.violation('recursive:no-warning', f'{name}: no BeartypeDoorInferHintRecursionWarning; hint={short(h, 200)}', 'recursive', j,
                            dict(case=name, hint=short(h, 300), warnings=[type(w.message).__name__ for w in wl]))
            ok = True
            for r in (0, 1, 2, 3, 7, 2**31):
                with draws.armed(r):
                    try:
                        ok = ok and is_bearable(x, h) is True
                    except Exception as e:   # noqa
                        ok = False
            if not ok:
                W.violation('recursive:inferred-hint-rejects-container',
                            f'{name}: the hint inferred for a self-referential container does not accept it: {short(h, 200)}',
                            'recursive', j, dict(case=name, hint=short(h, 300)))

    # ---- random objects -----------------------------------------------------------------
    for idx in W.cases('rand', limit):
        rng = W.rng('rand', idx)
        x = gen_obj(rng, depth)
        if is_hint_like(x):
            W.count('hint_like_objects_recorded_only')
            continue
        shape = type_shape(x)
        nontrivial = bool(children(x)) or type(x).__module__ not in ('builtins',)
        W.evaluate(('r', shape) if nontrivial else None)
        W.add('top_types', type(x).__name__)
        if len(W.samples) < 4 and len(shape) > 25:
            W.sample(dict(obj=short(x, 160), shape=short(shape, 120)))
        decide('rand', idx, x, None, rng, 'default')
        # explicit O1: decided only when every container level is homogeneous
        if '|' not in shape and ',' not in shape and rng.random() < .4 and deep_homogeneous(x):
            W.count('o1_homogeneous_roundtrips')
            decide('rand', idx, x, conf_o1, rng, 'O1')

    W.need('roundtrips', 2000)
    W.need('roundtrips_held', 1000)
    W.need('recursive_cases', 8)
    W.need('profile_calls_counted', 100)
    W.finish()


guarded(main)

"""C15 - the public API is safe to use from many threads under every
interleaving (controlled-schedule exploration with invariant hooks + a
free-running stress run).  DESIGN §4 C15 / §3.5."""
import os
import sys
import threading
import typing

sys.path.insert(0, os.path.dirname(os.path.dirname(os.path.abspath(__file__))))
from vlib.worker import Worker, guarded, short, use_repo

use_repo()
from vlib import sched   # noqa: E402
import beartype   # noqa: E402
from beartype import BeartypeConf   # noqa: E402
from beartype.claw import beartype_package   # noqa: E402
from beartype.claw._package.clawpkgtrie import get_package_conf_or_none   # noqa: E402
from beartype.door import TypeHint, die_if_unbearable, is_bearable, is_subhint   # noqa: E402
from beartype.roar import BeartypeClawDecorWarning, BeartypeHintViolation   # noqa: E402
from collections.abc import Sequence   # noqa: E402

RULE = ('schedules of 2-3 threads, each running 1-4 public operations (BeartypeConf construction, TypeHint '
        'construction, is_bearable / die_if_unbearable, is_subhint, decoration + call, hook registration + lookup) on '
        'hints, classes, configurations and package names created fresh for the schedule (so every cache fill really '
        'races) and partly shared between the threads; a seeded cooperative scheduler switches threads at LINE events '
        'inside beartype (random walk with switch probability p; runs with d in {1,2,3} fixed change points; runs that '
        'preempt where a pooled scratch object is acquired or released and let the other thread run whole operations '
        'there); pooled dict / list / set containers are instances of checking subclasses that record any access by a '
        'thread that is not the current holder, and the pooled HintTreeCode / BeartypeCallDecorFuncData / FixedList objects have every attribute / item access checked against a side table of holders; '
        'beartype\'s locks are scheduler-aware shims; oracles: no exception, no logical deadlock, results equal to the '
        'analytically known sequential results, one shared object per equal configuration / hashable hint, every '
        'registration visible, pooled scratch objects owned by one operation at a time; distinct by switch trace digest; '
        'non-trivial = at least one context switch happened inside beartype')


HOOKED = []      # package names registered during the current schedule (checked again once all threads are done)
SKIPPED = []     # package names put on a skip list during the current schedule (checked again likewise)


class PoolMonitor:
    """Ownership monitor on KeyPool.acquire/release: exactly-once ownership."""

    def __init__(self):
        from beartype._util.cache.pool.utilcachepool import KeyPool
        self.owned = {}
        self.problems = []
        self.acquires = 0
        self.releases = 0
        self.mutex = threading.Lock()
        mon = self
        orig_acq, orig_rel = KeyPool.acquire, KeyPool.release

        # ---- ownership sanitizer for the pooled builtin containers ---------------------------------
        # The typed instance pool hands out dict / list / set scratch containers.  Here it hands out instances of
        # subclasses whose methods check that the calling thread is the current holder (set at acquire, cleared at
        # release): "this object is not safely accessible after calling release_instance()" is the pool's own
        # contract, and an access by a thread that no longer holds the object is state another operation may own.
        self.stale_uses = []
        self.guarded_accesses = 0

        def guard(base, name):
            orig = getattr(base, name)

            def method(self_, *a, **k):
                mon.guarded_accesses += 1
                if self_._v_holder != threading.get_ident():
                    f = sys._getframe(1)
                    where = f'{os.path.basename(f.f_code.co_filename)}:{f.f_code.co_name}'
                    mon.stale_uses.append((where, f'{base.__name__}.{name}() at {where} line {f.f_lineno} by thread '
                                           f'{threading.get_ident()} while the pooled {base.__name__} is '
                                           + ('in the pool (released)' if self_._v_holder is None else f'held by thread {self_._v_holder}')))
                return orig(self_, *a, **k)
            method.__name__ = name
            return method
        common = ['__contains__', '__iter__', '__len__', 'clear', 'copy', 'pop']
        per_type = {
            dict: common + ['__getitem__', '__setitem__', '__delitem__', 'get', 'keys', 'values', 'items', 'popitem', 'setdefault', 'update'],
            list: common + ['__getitem__', '__setitem__', '__delitem__', 'append', 'extend', 'insert', 'remove', 'index', 'count',
                            'sort', 'reverse', '__add__', '__iadd__', '__reversed__'],
            set: common + ['add', 'discard', 'remove', 'update', 'union', 'intersection', 'difference', '__or__', '__ior__', '__and__', '__sub__'],
        }
        self.pooled_types = {}
        for base, names in per_type.items():
            ns = {n: guard(base, n) for n in names}
            ns['_v_holder'] = None
            # transparent to exact-type tests (`obj.__class__ in {dict, list, set}`): only type() tells the difference
            ns['__class__'] = property(lambda self_, _b=base: _b)
            self.pooled_types[base] = type('Pooled' + base.__name__.capitalize(), (base,), ns)
        self.base_of = {v: k for k, v in self.pooled_types.items()}
        from beartype._util.cache.pool import utilcachepoolinstance as _upi
        ipool = _upi._instance_pool
        ipool._pool_item_maker = lambda cls, _m=ipool._pool_item_maker: (mon.pooled_types[cls]() if cls in mon.pooled_types else _m(cls))
        for base in per_type:
            ipool._key_to_pool[base].clear()          # plain containers pooled during the warm-up

        # ---- the same sanitizer for the pooled objects that are not builtin containers ------------------
        # HintTreeCode (code generation scratch state), BeartypeCallDecorFuncData (decoration scratch state) and the
        # fixed lists of the sized pool.  The holder lives in a side table keyed by id() (the classes have __slots__);
        # tracked objects are kept alive so that an id is never reused; an object that never went through a pool
        # (absent from the table) is nobody's business.
        self.holder = {}
        self.keep = {}
        self.object_accesses = 0
        from beartype._check.cls.hint.tree.hinttreecode import HintTreeCode
        from beartype._check.cls.call.calldatadecorfunc import BeartypeCallDecorFuncData
        from beartype._util.cache.pool.utilcachepoollistfixed import FixedList
        self.tracked_classes = (HintTreeCode, BeartypeCallDecorFuncData, FixedList)

        def check_holder(self_, what):
            mon.object_accesses += 1
            h = mon.holder.get(id(self_), mon)
            if h is not mon and h != threading.get_ident():
                f = sys._getframe(2)
                where = f'{os.path.basename(f.f_code.co_filename)}:{f.f_code.co_name}'
                mon.stale_uses.append((where, f'{type(self_).__name__}: {what} at {where} line {f.f_lineno} by thread '
                                       f'{threading.get_ident()} while the pooled object is '
                                       + ('in the pool (released)' if h is None else f'held by thread {h}')))

        for cls in (HintTreeCode, BeartypeCallDecorFuncData):
            def ga(self_, name, _o=object.__getattribute__):
                check_holder(self_, f'read of .{name}')
                return _o(self_, name)

            def sa(self_, name, value, _o=object.__setattr__):
                check_holder(self_, f'write of .{name}')
                return _o(self_, name, value)
            cls.__getattribute__ = ga
            cls.__setattr__ = sa
        for name in ('__getitem__', '__setitem__', '__iter__', '__len__', '__contains__', 'index', 'count', 'copy'):
            def lm(self_, *a, _o=getattr(FixedList, name), _n=name, **k):
                check_holder(self_, f'{_n}()')
                return _o(self_, *a, **k)
            lm.__name__ = name
            setattr(FixedList, name, lm)

        def acquire(pool, *a, **k):
            item = orig_acq(pool, *a, **k)
            if type(item) in mon.base_of:
                item._v_holder = threading.get_ident()
            elif type(item) in mon.tracked_classes:
                mon.keep[id(item)] = item
                mon.holder[id(item)] = threading.get_ident()
            with mon.mutex:
                mon.acquires += 1
                if id(item) in mon.owned:
                    mon.problems.append(f'{type(item).__name__} handed out to thread {threading.get_ident()} while still owned by {mon.owned[id(item)]}')
                mon.owned[id(item)] = threading.get_ident()
            s = sched.CURRENT
            if s is not None:
                s.event_point('pool-acquire')
            return item

        def release(pool, *a, **k):
            item = k.get('item', a[0] if a else None)        # KeyPool.release(item, key)
            with mon.mutex:
                mon.owned.pop(id(item), None)
                mon.releases += 1
            if id(item) in mon.holder:
                mon.holder[id(item)] = None
            if type(item) in mon.base_of:
                # back under the key it is acquired by (release_instance() keys by obj.__class__)
                item._v_holder = None
                a, k = (item, mon.base_of[type(item)]), {}
            r = orig_rel(pool, *a, **k)
            # ownership just changed hands: the adversarial moment for a holder that keeps using the object
            s = sched.CURRENT
            if s is not None:
                s.event_point('pool-release')
            return r
        KeyPool.acquire, KeyPool.release = acquire, release
        # beartype binds the pool methods early (module globals such as
        # `_instance_pool_acquire = _instance_pool.acquire`): rebind those globals too
        import types as _t
        for mname, mod in list(sys.modules.items()):
            if mod is None or not mname.startswith('beartype'):
                continue
            for k, v in list(vars(mod).items()):
                if isinstance(v, _t.MethodType) and isinstance(v.__self__, KeyPool) and v.__name__ in ('acquire', 'release'):
                    pool = v.__self__
                    w = (lambda *a, _p=pool, **kw: acquire(_p, *a, **kw)) if v.__name__ == 'acquire' else \
                        (lambda *a, _p=pool, **kw: release(_p, *a, **kw))
                    setattr(mod, k, w)
                    self.rebound = getattr(self, 'rebound', 0) + 1


class RegistryLockMonitor:
    """Lockset monitor (Eraser-style, specialised): every mutation of a node of the import-hook registries (the trie of
    hooked packages and the trie of skipped packages - dict subclasses defined by beartype) must happen while the
    calling thread holds claw_lock, the lock the code itself documents for them.  Deterministic: needs no particular
    interleaving, only that the mutating path runs."""

    def __init__(self):
        import beartype.claw._clawstate as cs
        from beartype.claw._package import clawpkgtrie
        self.lock = cs.claw_lock
        self.ok = isinstance(self.lock, sched.ShimLock)
        self.unlocked_writes = []
        self.writes = 0
        mon = self

        def guard(cls, name):
            orig = getattr(cls, name)

            def method(self_, *a, **k):
                mon.writes += 1
                if mon.ok and not mon.lock.held_by_me():
                    f = sys._getframe(1)
                    mon.unlocked_writes.append((f'{os.path.basename(f.f_code.co_filename)}:{f.f_code.co_name}',
                                                f'{cls.__name__}.{name}() at {os.path.basename(f.f_code.co_filename)}:{f.f_lineno} '
                                                f'({f.f_code.co_name}) by thread {threading.get_ident()} without holding claw_lock'))
                return orig(self_, *a, **k)
            method.__name__ = name
            return method
        for cls in (clawpkgtrie.PackagesTrieBlacklist, clawpkgtrie.PackagesTrieWhitelist):
            for name in ('__setitem__', '__delitem__', 'pop', 'popitem', 'setdefault', 'clear', 'update'):
                setattr(cls, name, guard(cls, name))


def make_ops(rng, tag):
    """Thread programs for one schedule over fresh names; returns (programs, checker)."""
    Fresh = type(f'Fresh{tag}', (), {})
    Other = type(f'Other{tag}', (), {})
    FreshExc = type(f'FreshExc{tag}', (Exception,), {})
    pkg_shared = f'shpkg{tag}'
    nthreads = rng.choice((2, 2, 3))
    catalog = []

    def op_conf(shared=True):
        kw = dict(violation_type=FreshExc, is_random=False) if shared else dict(violation_type=type(f'E{tag}_{rng.random()}', (Exception,), {}))
        return ('conf', lambda: BeartypeConf(**kw), 'identity:conf' if shared else None)

    def op_typehint():
        h = rng.choice((list[Fresh], dict[str, Fresh], typing.Optional[Fresh], tuple[Fresh, ...]))
        return ('typehint', lambda: TypeHint(h), 'identity:' + repr(h))

    def op_bearable():
        U, M = typing.Union, Fresh
        table = {
            'list': (list[M], [M()], [Other()]),
            'dict': (dict[str, M], {'a': M()}, {'a': 1}),
            'opt': (typing.Optional[M], None, Other()),
            'union': (U[M, list[M]], [M()], [1]),
            'tuple': (tuple[M, int], (M(), 1), (M(), 'x')),
            # unions of every make: class + PEP children, PEP children only, nested in containers and in each other
            # (the union code generator is the heaviest user of pooled scratch dicts and lists)
            'union-class-pep': (U[int, list[M]], [M()], 'x'),
            'union-pep-only': (U[list[M], dict[str, M]], {'a': M()}, (M(),)),
            'nested-union-pep-only': (tuple[list[M], U[list[M], dict[str, M]]], ([M()], {'a': M()}), ([M()], 'junk')),
            'nested-union-pep-only-2': (dict[str, U[list[M], tuple[M, ...]]], {'k': (M(),)}, {'k': M()}),
            'list-of-union': (list[U[M, list[M]]], [[M()]], [[1]]),
            'optional-and-union-in-tuple': (tuple[typing.Optional[M], U[set[M], frozenset[M], list[M]]], (None, [M()]), (None, 3)),
            'union-of-containers-of-unions': (U[list[U[M, int]], dict[str, U[M, str]]], {'a': 'b'}, {'a': 1}),
            'second-item-union': (tuple[list[M], U[list[M], tuple[M, ...]]], ([M()], (M(),)), ([M()], M())),
        }
        kind = rng.choice(sorted(table))
        hint, good, bad = table[kind]
        use_good = rng.random() < .5
        return ('is_bearable:' + kind, lambda: is_bearable(good if use_good else bad, hint), ('equals', use_good))

    def op_die():
        hint = rng.choice((list[Fresh], typing.Sequence[Fresh]))
        use_good = rng.random() < .5

        def f():
            try:
                die_if_unbearable([Fresh()] if use_good else [3], hint)
                return True
            except BeartypeHintViolation:
                return False
        return ('die_if_unbearable', f, ('equals', use_good))

    def op_subhint():
        return ('is_subhint', lambda: is_subhint(list[Fresh], Sequence[Fresh]), ('equals', True))

    def op_decor():
        use_good = rng.random() < .5
        goods = {list[Fresh]: [Fresh()], typing.Optional[Fresh]: None, dict[str, Fresh]: {'k': Fresh()},
                 typing.Union[int, list[Fresh]]: [Fresh()],
                 tuple[list[Fresh], typing.Union[list[Fresh], dict[str, Fresh]]]: ([Fresh()], {'k': Fresh()})}
        hint = rng.choice(sorted(goods, key=repr))

        def f():
            def g(a):
                return a
            g.__annotations__ = {'a': hint, 'return': hint}
            w = beartype.beartype(g)
            arg = goods[hint] if use_good else 3.5
            try:
                w(arg)
                return True
            except BeartypeHintViolation:
                return False
        return ('decorate+call', f, ('equals', use_good))

    def op_pep695():
        # a PEP 695 parametrised callable whose stringified annotations name its own type parameter: decoration
        # resolves them through a pooled scratch scope
        use_good = rng.random() < .5
        bound, good, bad = rng.choice((('int', 3, 'x'), ('str', 's', 3), (f'Fresh{tag}', None, 3)))
        src = f"def g[T: {bound}](x: 'T') -> 'T':\n    return x\n"
        uid = rng.randrange(10 ** 9)

        def f():
            import types as _ty
            mname = f'c15p695_{tag}_{uid}_{threading.get_ident()}'
            mod = _ty.ModuleType(mname)
            mod.__dict__[f'Fresh{tag}'] = Fresh
            sys.modules[mname] = mod
            try:
                exec(compile(src, f'<{mname}>', 'exec'), mod.__dict__)
                w = beartype.beartype(mod.g)
                arg = (Fresh() if good is None else good) if use_good else bad
                try:
                    w(arg)
                    return True
                except BeartypeHintViolation:
                    return False
            finally:
                sys.modules.pop(mname, None)
        return ('decorate-pep695+call', f, ('equals', use_good))

    def op_decor_later():
        # a union / type tuple naming a class that does not exist yet when the callable is decorated: the members are
        # partitioned into resolved and unresolved ones through two pooled scratch lists
        use_good = rng.random() < .5
        hint_src = rng.choice(("Union['Later', int, str]", "Optional[Union['Later', bytes]]", "list[Union[int, 'Later', str]]"))
        good, bad = (([3] if hint_src.startswith('list') else b'x' if 'bytes' in hint_src else 3),
                     ([3.5] if hint_src.startswith('list') else 3.5))
        src = f"from typing import Optional, Union\ndef g(a: {hint_src}) -> {hint_src}:\n    return a\n"
        uid = rng.randrange(10 ** 9)

        def f():
            import types as _ty
            mname = f'c15later_{tag}_{uid}_{threading.get_ident()}'
            mod = _ty.ModuleType(mname)
            sys.modules[mname] = mod
            try:
                exec(compile(src, f'<{mname}>', 'exec'), mod.__dict__)
                w = beartype.beartype(mod.g)
                mod.Later = Fresh
                try:
                    w(good if use_good else bad)
                    return True
                except BeartypeHintViolation:
                    return False
            finally:
                sys.modules.pop(mname, None)
        return ('decorate-unresolved-union+call', f, ('equals', use_good))

    def op_hook(shared):
        # own names are children of one parent created for this schedule, so that concurrent
        # registrations race on creating the same intermediate registry nodes
        name = pkg_shared if shared else f'par{tag}.own{rng.randrange(10 ** 6)}'

        # own registrations may carry a skip list: the skipped names of concurrent registrations share the fresh
        # parent too, in the (separate) trie of skipped packages
        with_skip = (not shared) and rng.random() < .6

        def f():
            kw = dict(claw_skip_package_names=(name + '.legacy',)) if with_skip else {}
            beartype_package(name, conf=BeartypeConf(is_random=False, **kw))
            HOOKED.append(name)
            if with_skip:
                SKIPPED.append(name + '.legacy')
            c = get_package_conf_or_none(name + '.sub.mod')
            ok = c is not None and c.is_random is False
            if with_skip:
                ok = ok and get_package_conf_or_none(name + '.legacy.mod') is None
            return ok
        return ('hook:' + ('shared' if shared else 'own-with-skip' if with_skip else 'own'), f, ('equals', True))

    makers = [lambda: op_conf(True), lambda: op_conf(True), lambda: op_conf(False), op_typehint, op_typehint, op_bearable, op_bearable,
              op_die, op_subhint, op_decor, op_decor_later, op_decor_later, op_pep695, op_pep695, lambda: op_hook(True), lambda: op_hook(False)]
    if rng.random() < .12:
        # a registration storm: every thread only registers packages of its own (mostly with skip lists) below the
        # one fresh parent - all of them race on the same registry nodes
        programs = []
        for t in range(nthreads):
            ops = [op_hook(False) for _ in range(rng.choice((1, 2, 3)))]
            catalog.extend(o[0] for o in ops)
            programs.append(ops)
        return programs, catalog
    # make the threads share some operations (same fresh hint / conf / package from several threads)
    shared_ops = [rng.choice(makers)() for _ in range(2)]
    programs = []
    for t in range(nthreads):
        ops = []
        for _ in range(rng.choice((1, 2, 3, 4))):
            op = rng.choice(shared_ops) if rng.random() < .45 else rng.choice(makers)()
            ops.append(op)
            catalog.append(op[0])
        programs.append(ops)
    return programs, catalog


def run_program(ops):
    out = []
    for name, fn, _ in ops:
        out.append(fn())
    return out


def judge(W, stream, idx, programs, res, wit):
    """Oracles over one finished schedule; returns True if clean."""
    if res['deadlock']:
        W.violation('deadlock', res['deadlock'], stream, idx, wit)
        return False
    if res['hung']:
        W.count('schedules_hung_inconclusive')
        return True
    for t, e in res['errors'].items():
        if isinstance(e, sched.Deadlock):
            continue
        from vlib_engine_site import exc_site
        W.violation('exception-in-thread:' + exc_site(e), f'thread {t} raised {type(e).__name__}: {short(e, 200)}', stream, idx, wit)
        return False
    names, HOOKED[:] = list(HOOKED), []
    for nm in names:
        W.count('registrations_rechecked')
        if get_package_conf_or_none(nm + '.sub.mod') is None:
            W.violation('lost-registration', f'package {nm!r} was registered by a thread (no exception) but is not registered once all threads are done',
                        stream, idx, wit)
            return False
    snames, SKIPPED[:] = list(SKIPPED), []
    for nm in snames:
        W.count('skip_registrations_rechecked')
        if get_package_conf_or_none(nm + '.mod') is not None:
            W.violation('lost-skip-registration', f'package {nm!r} was put on a skip list by a thread (no exception) but is type-checked '
                                                  f'once all threads are done', stream, idx, wit)
            return False
    identity = {}
    for t, ops in enumerate(programs):
        got = res['results'].get(t)
        if got is None:
            continue
        for (name, fn, expect), g in zip(ops, got):
            W.count('operations_checked')
            if isinstance(expect, tuple) and expect[0] == 'equals':
                if g != expect[1]:
                    W.violation('wrong-answer:' + name.split(':')[0], f'{name} answered {g!r}; every sequential order gives {expect[1]!r}', stream, idx, wit)
                    return False
            elif isinstance(expect, str) and expect.startswith('identity:'):
                prev = identity.setdefault(expect, g)
                if prev is not g:
                    W.violation('two-objects-for-equal-' + ('configuration' if 'conf' in expect else 'hint'),
                                f'{name}: two threads obtained different objects for {expect[9:]}', stream, idx, wit)
                    return False
                W.count('identity_checks')
    return True


def main():
    W = Worker('C15', RULE, assumptions=[
        'yield points are the LINE events of code under beartype/ and of beartype-generated code (finer than CPython 3.12\'s own preemption points)',
        'expected answers are known analytically because every schedule works on classes created for it alone',
        'a schedule that degrades to free running (watchdog) is counted inconclusive, never a violation'])
    quick = W.quick
    limit = 100000 if quick else 5000000
    # exception site helper without importing the sampler controller
    import types as _types
    m = _types.ModuleType('vlib_engine_site')

    def exc_site(e):
        tb, site = e.__traceback__, None
        while tb is not None:
            fn = tb.tb_frame.f_code.co_filename
            if '/beartype/' in fn and 'beartype_test' not in fn:
                site = fn.split('/beartype/', 1)[1].rsplit('.', 1)[0].replace('/', '.') + ':' + tb.tb_frame.f_code.co_name
            tb = tb.tb_next
        return f'{type(e).__name__}@{site}'
    m.exc_site = exc_site
    sys.modules['vlib_engine_site'] = m

    import random as _random
    # ---- warm-up: every lazy import happens single-threaded, before any schedule -----------------
    wr = _random.Random(1)
    for i in range(6):
        progs, _ = make_ops(wr, f'w{i}')
        for p in progs:
            try:
                run_program(p)
            except Exception:
                pass
    pool_mon = PoolMonitor()
    nshims = sched.install_lock_shims()
    W.count('lock_shims_installed', nshims)
    reg_mon = RegistryLockMonitor()
    if not reg_mon.ok:
        W.count('registry_lock_monitor_inactive(claw_lock is not a shim)')

    for idx in W.cases('sched', limit, frac=.85):
        rng = W.rng('sched', idx)
        programs, catalog = make_ops(rng, f'{W.k}x{idx}')
        mode = rng.choice(('walk', 'walk', 'pct', 'event', 'event'))
        if mode == 'walk':
            s = sched.Scheduler(rng.getrandbits(32), switch_prob=rng.choice((0.02, 0.08, 0.25)))
        elif mode == 'event':
            # preempt where a pooled object changes hands and let the other thread run whole operations there
            s = sched.Scheduler(rng.getrandbits(32), switch_prob=rng.choice((0.0, 0.0, 0.01)),
                                event_prob=rng.choice((0.1, 0.3, 0.6)))
        else:
            d = rng.choice((1, 2, 3))
            s = sched.Scheduler(rng.getrandbits(32), change_points={rng.randrange(1, 4000) for _ in range(d)})
        pool_mon.problems.clear()
        res = s.run([lambda p=p: run_program(p) for p in programs])
        W.count('schedules')
        W.count('yield_points', res['steps'])
        W.count('context_switches', res['switches'])
        W.count('lock_handoffs', res['lock_handoffs'])
        W.count('schedules.' + mode)
        W.count('pool_events_seen_by_scheduler', res['events_seen'])
        W.count('switches_at_pool_events', res['event_switches'])
        for c in catalog:
            W.add('operations', c.split(':')[0])
        W.evaluate(res['trace_digest'] if res['switches'] > 0 else None)
        if res['degraded']:
            W.count('schedules_degraded_inconclusive')
        wit = dict(mode=mode, programs=[[o[0] for o in p] for p in programs], steps=res['steps'], switches=res['switches'],
                   trace_tail=[str(t) for t in res['trace_tail']])
        if len(W.samples) < 3 and res['switches'] > 2:
            W.sample(wit)
        if pool_mon.problems:
            W.violation('pooled-object-shared', pool_mon.problems[0], 'sched', idx, wit)
            continue
        if pool_mon.stale_uses:
            where, what = pool_mon.stale_uses[0]
            pool_mon.stale_uses.clear()
            W.violation('pooled-object-used-by-non-holder:' + where, what, 'sched', idx, wit)
            continue
        if reg_mon.unlocked_writes:
            where, what = reg_mon.unlocked_writes[0]
            reg_mon.unlocked_writes.clear()
            W.violation('registry-written-without-its-lock:' + where, what, 'sched', idx, wit)
            continue
        judge(W, 'sched', idx, programs, res, wit)
    W.count('pool_acquires_observed', pool_mon.acquires)
    W.count('pooled_container_accesses_checked_for_holder', pool_mon.guarded_accesses)
    W.count('pooled_object_accesses_checked_for_holder', pool_mon.object_accesses)
    W.count('pooled_objects_tracked', len(pool_mon.holder))
    W.count('registry_writes_checked_for_lock', reg_mon.writes)
    W.count('shim_lock_acquisitions', sum(s_.acquisitions for s_ in sched.SHIMS.values()))

    # ---- free-running stress: the real OS scheduler ------------------------------------------------------
    sys.setswitchinterval(1e-6)
    for idx in W.cases('stress', limit):
        rng = W.rng('stress', idx)
        programs, catalog = make_ops(rng, f's{W.k}x{idx}')
        programs = programs * 4          # 8-12 threads, the same operations from several threads
        results, errors = {}, {}
        barrier = threading.Barrier(len(programs))

        def body(i, p):
            try:
                barrier.wait()
                results[i] = run_program(p)
            except BaseException as e:   # noqa
                errors[i] = e
        ts = [threading.Thread(target=body, args=(i, p)) for i, p in enumerate(programs)]
        [t.start() for t in ts]
        [t.join(60) for t in ts]
        W.count('stress_runs')
        W.evaluate(None)
        res = dict(results=results, errors=errors, deadlock=None, hung=[i for i, t in enumerate(ts) if t.is_alive()])
        if pool_mon.stale_uses:
            where, what = pool_mon.stale_uses[0]
            pool_mon.stale_uses.clear()
            W.violation('pooled-object-used-by-non-holder:' + where, what, 'stress', idx, dict(mode='free-running'))
            continue
        judge(W, 'stress', idx, programs, res, dict(mode='free-running', programs=[[o[0] for o in p] for p in programs[:3]]))

    W.need('schedules', 100)
    W.need('yield_points', 50000)
    W.need('context_switches', 500)
    W.need('operations_checked', 500)
    W.need('identity_checks', 50)
    W.need('lock_shims_installed', 3)
    W.need('shim_lock_acquisitions', 100)
    W.need('pool_acquires_observed', 100)
    W.need('switches_at_pool_events', 50)
    W.need('pooled_container_accesses_checked_for_holder', 1000)
    W.need('pooled_object_accesses_checked_for_holder', 1000)
    W.need('registry_writes_checked_for_lock', 200)
    W.need('stress_runs', 20)
    W.finish()


guarded(main)

"""C15 - the public API is safe to use from many threads under every
interleaving (controlled-schedule exploration with invariant hooks + a
free-running stress run).  DESIGN §4 C15 / §3.5."""
import os
import sys
import threading
import typing

sys.path.insert(0, os.path.dirname(os.path.dirname(os.path.abspath(__file__))))
from vlib.worker import Worker, guarded, short, use_repo

use_repo()
from vlib import sched   # noqa: E402
import beartype   # noqa: E402
from beartype import BeartypeConf   # noqa: E402
from beartype.claw import beartype_package   # noqa: E402
from beartype.claw._package.clawpkgtrie import get_package_conf_or_none   # noqa: E402
from beartype.door import TypeHint, die_if_unbearable, is_bearable, is_subhint   # noqa: E402
from beartype.roar import BeartypeClawDecorWarning, BeartypeHintViolation   # noqa: E402
from collections.abc import Sequence   # noqa: E402

RULE = ('schedules of 2-3 threads, each running 1-4 public operations (BeartypeConf construction, TypeHint '
        'construction, is_bearable / die_if_unbearable, is_subhint, decoration + call, hook registration + lookup) on '
        'hints, classes, configurations and package names created fresh for the schedule (so every cache fill really '
        'races) and partly shared between the threads; a seeded cooperative scheduler switches threads at LINE events '
        'inside beartype (random walk with switch probability p, and runs with d in {1,2,3} fixed change points); '
        'beartype\'s locks are scheduler-aware shims; oracles: no exception, no logical deadlock, results equal to the '
        'analytically known sequential results, one shared object per equal configuration / hashable hint, every '
        'registration visible, pooled scratch objects owned by one operation at a time; distinct by switch trace digest; '
        'non-trivial = at least one context switch happened inside beartype')


HOOKED = []      # package names registered during the current schedule (checked again once all threads are done)


class PoolMonitor:
    """Ownership monitor on KeyPool.acquire/release: exactly-once ownership."""

    def __init__(self):
        from beartype._util.cache.pool.utilcachepool import KeyPool
        self.owned = {}
        self.problems = []
        self.acquires = 0
        self.mutex = threading.Lock()
        mon = self
        orig_acq, orig_rel = KeyPool.acquire, KeyPool.release

        def acquire(pool, *a, **k):
            item = orig_acq(pool, *a, **k)
            with mon.mutex:
                mon.acquires += 1
                if id(item) in mon.owned:
                    mon.problems.append(f'{type(item).__name__} handed out to thread {threading.get_ident()} while still owned by {mon.owned[id(item)]}')
                mon.owned[id(item)] = threading.get_ident()
            return item

        def release(pool, *a, **k):
            item = k.get('item', a[0] if a else None)        # KeyPool.release(item, key)
            with mon.mutex:
                mon.owned.pop(id(item), None)
            return orig_rel(pool, *a, **k)
        KeyPool.acquire, KeyPool.release = acquire, release
        # beartype binds the pool methods early (module globals such as
        # `_instance_pool_acquire = _instance_pool.acquire`): rebind those globals too
        import types as _t
        for mname, mod in list(sys.modules.items()):
            if mod is None or not mname.startswith('beartype'):
                continue
            for k, v in list(vars(mod).items()):
                if isinstance(v, _t.MethodType) and isinstance(v.__self__, KeyPool) and v.__name__ in ('acquire', 'release'):
                    pool = v.__self__
                    w = (lambda *a, _p=pool, **kw: acquire(_p, *a, **kw)) if v.__name__ == 'acquire' else \
                        (lambda *a, _p=pool, **kw: release(_p, *a, **kw))
                    setattr(mod, k, w)
                    self.rebound = getattr(self, 'rebound', 0) + 1


def make_ops(rng, tag):
    """Thread programs for one schedule over fresh names; returns (programs, checker)."""
    Fresh = type(f'Fresh{tag}', (), {})
    Other = type(f'Other{tag}', (), {})
    FreshExc = type(f'FreshExc{tag}', (Exception,), {})
    pkg_shared = f'shpkg{tag}'
    nthreads = rng.choice((2, 2, 3))
    catalog = []

    def op_conf(shared=True):
        kw = dict(violation_type=FreshExc, is_random=False) if shared else dict(violation_type=type(f'E{tag}_{rng.random()}', (Exception,), {}))
        return ('conf', lambda: BeartypeConf(**kw), 'identity:conf' if shared else None)

    def op_typehint():
        h = rng.choice((list[Fresh], dict[str, Fresh], typing.Optional[Fresh], tuple[Fresh, ...]))
        return ('typehint', lambda: TypeHint(h), 'identity:' + repr(h))

    def op_bearable():
        kind = rng.choice(('list', 'dict', 'opt', 'union', 'tuple'))
        hint, good, bad = {
            'list': (list[Fresh], [Fresh()], [Other()]),
            'dict': (dict[str, Fresh], {'a': Fresh()}, {'a': 1}),
            'opt': (typing.Optional[Fresh], None, Other()),
            'union': (typing.Union[Fresh, list[Fresh]], [Fresh()], [1]),
            'tuple': (tuple[Fresh, int], (Fresh(), 1), (Fresh(), 'x')),
        }[kind]
        use_good = rng.random() < .5
        return ('is_bearable:' + kind, lambda: is_bearable(good if use_good else bad, hint), ('equals', use_good))

    def op_die():
        hint = rng.choice((list[Fresh], typing.Sequence[Fresh]))
        use_good = rng.random() < .5

        def f():
            try:
                die_if_unbearable([Fresh()] if use_good else [3], hint)
                return True
            except BeartypeHintViolation:
                return False
        return ('die_if_unbearable', f, ('equals', use_good))

    def op_subhint():
        return ('is_subhint', lambda: is_subhint(list[Fresh], Sequence[Fresh]), ('equals', True))

    def op_decor():
        use_good = rng.random() < .5
        hint = rng.choice((list[Fresh], typing.Optional[Fresh], dict[str, Fresh]))

        def f():
            def g(a):
                return a
            g.__annotations__ = {'a': hint, 'return': hint}
            w = beartype.beartype(g)
            arg = {list[Fresh]: [Fresh()], typing.Optional[Fresh]: None, dict[str, Fresh]: {'k': Fresh()}}[hint] if use_good else 3
            try:
                w(arg)
                return True
            except BeartypeHintViolation:
                return False
        return ('decorate+call', f, ('equals', use_good))

    def op_hook(shared):
        # own names are children of one parent created for this schedule, so that concurrent
        # registrations race on creating the same intermediate registry nodes
        name = pkg_shared if shared else f'par{tag}.own{rng.randrange(10 ** 6)}'

        def f():
            beartype_package(name, conf=BeartypeConf(is_random=False))
            HOOKED.append(name)
            c = get_package_conf_or_none(name + '.sub.mod')
            return c is not None and c.is_random is False
        return ('hook:' + ('shared' if shared else 'own'), f, ('equals', True))

    makers = [lambda: op_conf(True), lambda: op_conf(True), lambda: op_conf(False), op_typehint, op_typehint, op_bearable, op_bearable,
              op_die, op_subhint, op_decor, lambda: op_hook(True), lambda: op_hook(False)]
    # make the threads share some operations (same fresh hint / conf / package from several threads)
    shared_ops = [rng.choice(makers)() for _ in range(2)]
    programs = []
    for t in range(nthreads):
        ops = []
        for _ in range(rng.choice((1, 2, 3, 4))):
            op = rng.choice(shared_ops) if rng.random() < .45 else rng.choice(makers)()
            ops.append(op)
            catalog.append(op[0])
        programs.append(ops)
    return programs, catalog


def run_program(ops):
    out = []
    for name, fn, _ in ops:
        out.append(fn())
    return out


def judge(W, stream, idx, programs, res, wit):
    """Oracles over one finished schedule; returns True if clean."""
    if res['deadlock']:
        W.violation('deadlock', res['deadlock'], stream, idx, wit)
        return False
    if res['hung']:
        W.count('schedules_hung_inconclusive')
        return True
    for t, e in res['errors'].items():
        if isinstance(e, sched.Deadlock):
            continue
        from vlib_engine_site import exc_site
        W.violation('exception-in-thread:' + exc_site(e), f'thread {t} raised {type(e).__name__}: {short(e, 200)}', stream, idx, wit)
        return False
    names, HOOKED[:] = list(HOOKED), []
    for nm in names:
        W.count('registrations_rechecked')
        if get_package_conf_or_none(nm + '.sub.mod') is None:
            W.violation('lost-registration', f'package {nm!r} was registered by a thread (no exception) but is not registered once all threads are done',
                        stream, idx, wit)
            return False
    identity = {}
    for t, ops in enumerate(programs):
        got = res['results'].get(t)
        if got is None:
            continue
        for (name, fn, expect), g in zip(ops, got):
            W.count('operations_checked')
            if isinstance(expect, tuple) and expect[0] == 'equals':
                if g != expect[1]:
                    W.violation('wrong-answer:' + name.split(':')[0], f'{name} answered {g!r}; every sequential order gives {expect[1]!r}', stream, idx, wit)
                    return False
            elif isinstance(expect, str) and expect.startswith('identity:'):
                prev = identity.setdefault(expect, g)
                if prev is not g:
                    W.violation('two-objects-for-equal-' + ('configuration' if 'conf' in expect else 'hint'),
                                f'{name}: two threads obtained different objects for {expect[9:]}', stream, idx, wit)
                    return False
                W.count('identity_checks')
    return True


def main():
    W = Worker('C15', RULE, assumptions=[
        'yield points are the LINE events of code under beartype/ and of beartype-generated code (finer than CPython 3.12\'s own preemption points)',
        'expected answers are known analytically because every schedule works on classes created for it alone',
        'a schedule that degrades to free running (watchdog) is counted inconclusive, never a violation'])
    quick = W.quick
    limit = 100000 if quick else 5000000
    # exception site helper without importing the sampler controller
    import types as _types
    m = _types.ModuleType('vlib_engine_site')

    def exc_site(e):
        tb, site = e.__traceback__, None
        while tb is not None:
            fn = tb.tb_frame.f_code.co_filename
            if '/beartype/' in fn and 'beartype_test' not in fn:
                site = fn.split('/beartype/', 1)[1].rsplit('.', 1)[0].replace('/', '.') + ':' + tb.tb_frame.f_code.co_name
            tb = tb.tb_next
        return f'{type(e).__name__}@{site}'
    m.exc_site = exc_site
    sys.modules['vlib_engine_site'] = m

    import random as _random
    # ---- warm-up: every lazy import happens single-threaded, before any schedule -----------------
    wr = _random.Random(1)
    for i in range(6):
        progs, _ = make_ops(wr, f'w{i}')
        for p in progs:
            try:
                run_program(p)
            except Exception:
                pass
    pool_mon = PoolMonitor()
    nshims = sched.install_lock_shims()
    W.count('lock_shims_installed', nshims)

    for idx in W.cases('sched', limit, frac=.85):
        rng = W.rng('sched', idx)
        programs, catalog = make_ops(rng, f'{W.k}x{idx}')
        mode = rng.choice(('walk', 'walk', 'pct'))
        if mode == 'walk':
            s = sched.Scheduler(rng.getrandbits(32), switch_prob=rng.choice((0.02, 0.08, 0.25)))
        else:
            d = rng.choice((1, 2, 3))
            s = sched.Scheduler(rng.getrandbits(32), change_points={rng.randrange(1, 4000) for _ in range(d)})
        pool_mon.problems.clear()
        res = s.run([lambda p=p: run_program(p) for p in programs])
        W.count('schedules')
        W.count('yield_points', res['steps'])
        W.count('context_switches', res['switches'])
        W.count('lock_handoffs', res['lock_handoffs'])
        for c in catalog:
            W.add('operations', c.split(':')[0])
        W.evaluate(res['trace_digest'] if res['switches'] > 0 else None)
        if res['degraded']:
            W.count('schedules_degraded_inconclusive')
        wit = dict(mode=mode, programs=[[o[0] for o in p] for p in programs], steps=res['steps'], switches=res['switches'],
                   trace_tail=[str(t) for t in res['trace_tail']])
        if len(W.samples) < 3 and res['switches'] > 2:
            W.sample(wit)
        if pool_mon.problems:
            W.violation('pooled-object-shared', pool_mon.problems[0], 'sched', idx, wit)
            continue
        judge(W, 'sched', idx, programs, res, wit)
    W.count('pool_acquires_observed', pool_mon.acquires)
    W.count('shim_lock_acquisitions', sum(s_.acquisitions for s_ in sched.SHIMS.values()))

    # ---- free-running stress: the real OS scheduler ------------------------------------------------------
    sys.setswitchinterval(1e-6)
    for idx in W.cases('stress', limit):
        rng = W.rng('stress', idx)
        programs, catalog = make_ops(rng, f's{W.k}x{idx}')
        programs = programs * 4          # 8-12 threads, the same operations from several threads
        results, errors = {}, {}
        barrier = threading.Barrier(len(programs))

        def body(i, p):
            try:
                barrier.wait()
                results[i] = run_program(p)
            except BaseException as e:   # noqa
                errors[i] = e
        ts = [threading.Thread(target=body, args=(i, p)) for i, p in enumerate(programs)]
        [t.start() for t in ts]
        [t.join(60) for t in ts]
        W.count('stress_runs')
        W.evaluate(None)
        res = dict(results=results, errors=errors, deadlock=None, hung=[i for i, t in enumerate(ts) if t.is_alive()])
        judge(W, 'stress', idx, programs, res, dict(mode='free-running', programs=[[o[0] for o in p] for p in programs[:3]]))

    W.need('schedules', 100)
    W.need('yield_points', 50000)
    W.need('context_switches', 500)
    W.need('operations_checked', 500)
    W.need('identity_checks', 50)
    W.need('lock_shims_installed', 3)
    W.need('shim_lock_acquisitions', 100)
    W.need('pool_acquires_observed', 100)
    W.need('stress_runs', 20)
    W.finish()


guarded(main)

"""C04 - the wrapper is transparent and checks each argument against its own
parameter (DESIGN §4 C04).

Generated signatures over the five parameter kinds, generated calls; the
reference binding is Python's own binder (two undecorated twins returning
`locals()`, differing only in their default objects so that "was this parameter
passed" is read off the binder too); the decorated original is a spy.  Verdicts
come from raise / no-raise and object identity only."""
import os
import re
import sys
import types

sys.path.insert(0, os.path.dirname(os.path.dirname(os.path.abspath(__file__))))
from vlib.worker import Worker, guarded, short, use_repo

use_repo()
import beartype   # noqa: E402
from beartype import BeartypeConf, BeartypeStrategy   # noqa: E402
from beartype.roar import BeartypeCallHintParamViolation, BeartypeCallHintViolation   # noqa: E402

RULE = ('signatures = every legal kind sequence over positional-only / positional-or-keyword / *args / keyword-only / '
        '**kwargs (exhaustive up to 4 parameters in quick, 6 in thorough; sampled beyond), any subset annotated with '
        'one disjoint marker class per parameter, any legal subset with defaults (each default violates its own '
        'annotation), plain or hostile parameter names (args, kwargs, self ...), real or PEP 563 string annotations, '
        'optional satisfied return hint, body returning a fixed object or raising a fixed exception, default conf / '
        'is_random=False / strategy On; >= 40 calls per signature: 17 directed shapes (all positional, all keyword, '
        'minimal, missing, surplus positionals, keyword equal to a positional-only name, duplicate, novel keywords, '
        'keywords named like the variadic parameters, explicit defaults) each with all-satisfying and one-violating '
        'values, plus random shapes; expected outcome from the undecorated twins\' binding alone; plus a stream in which '
        'the decorated callable is a functools.wraps closure around the annotated original (pure pass-through or with '
        'parameters of its own), compared call by call with the undecorated closure; distinct by '
        '(signature, call shape, value classes); non-trivial = the signature has an annotated parameter')

NMARK = 10


class Sentinel:
    def __init__(self, name):
        self.name = name

    def __repr__(self):
        return self.name


class MyExc(Exception):
    pass


class MyBase(BaseException):
    pass


class R:
    """Marker of the return hint."""


MARK = [type(f'M{i}', (), {}) for i in range(NMARK)]
SUB = [type(f'M{i}s', (m,), {}) for i, m in enumerate(MARK)]
DEF_A = [Sentinel(f'_D{i}') for i in range(NMARK)]     # defaults of the original and of twin A
DEF_B = [Sentinel(f'_E{i}') for i in range(NMARK)]     # defaults of twin B
BASE_NS = {'R': R}
for _i in range(NMARK):
    BASE_NS[f'M{_i}'] = MARK[_i]
    BASE_NS[f'_D{_i}'] = DEF_A[_i]
    BASE_NS[f'_E{_i}'] = DEF_B[_i]

KIND_NAME = {'P': 'posonly', 'F': 'flex', 'A': 'varpos', 'K': 'kwonly', 'W': 'varkw'}
HOSTILE = ['args', 'kwargs', 'self', 'cls', 'kwarg_name', 'func', 'conf', 'return_', 'cls_stack', 'x0']

CONFS = [('default', beartype.beartype),
         ('is_random=False', beartype.beartype(conf=BeartypeConf(is_random=False))),
         ('strategy=On', beartype.beartype(conf=BeartypeConf(strategy=BeartypeStrategy.On)))]


def kind_sequences(n):
    for a in range(n + 1):
        for b in range(n - a + 1):
            for c in (0, 1):
                for e in (0, 1):
                    d = n - a - b - c - e
                    if d >= 0:
                        yield 'P' * a + 'F' * b + 'A' * c + 'K' * d + 'W' * e


class Param:
    __slots__ = ('idx', 'kind', 'name', 'ann', 'dflt')

    def __init__(self, idx, kind, name, ann, dflt):
        self.idx, self.kind, self.name, self.ann, self.dflt = idx, kind, name, ann, dflt


class Sig:
    def __init__(self, params):
        self.params = params
        self.P = [p for p in params if p.kind == 'P']
        self.F = [p for p in params if p.kind == 'F']
        self.K = [p for p in params if p.kind == 'K']
        self.A = next((p for p in params if p.kind == 'A'), None)
        self.W = next((p for p in params if p.kind == 'W'), None)
        self.pos = self.P + self.F
        self.byname = {p.name: p for p in params}
        self.kwable = {p.name: p for p in self.F + self.K}

    def text(self, ann, dprefix):
        """Parameter list source; ann=False drops annotations; dprefix names the defaults."""
        def one(p):
            s = {'A': '*', 'W': '**'}.get(p.kind, '') + p.name
            if ann and p.ann:
                s += f': M{p.idx}'
            if p.dflt:
                s += f' = {dprefix}{p.idx}'
            return s
        out = [one(p) for p in self.P]
        if self.P:
            out.append('/')
        out += [one(p) for p in self.F]
        if self.A:
            out.append(one(self.A))
        elif self.K:
            out.append('*')
        out += [one(p) for p in self.K]
        if self.W:
            out.append(one(self.W))
        return ', '.join(out)

    def intended(self, i=None, kw=None):
        """The parameter a slot is *meant* for - used to choose values only, never for verdicts."""
        if i is not None:
            return self.pos[i] if i < len(self.pos) else self.A
        return self.kwable.get(kw, self.W)


def gen_sig(rng, seq):
    n = len(seq)
    hostile = rng.random() < .15
    hnames = rng.sample(HOSTILE, n) if hostile else None
    amode = rng.choice(('all', 'some', 'some', 'some', 'one', 'none' if rng.random() < .3 else 'some'))
    npos = sum(1 for k in seq if k in 'PF')
    ndef = rng.choice((0, npos, rng.randint(0, npos), rng.randint(0, npos)))    # defaults are a suffix of P+F
    one = rng.randrange(n) if n else 0
    params, cnt = [], {}
    for i, k in enumerate(seq):
        j = cnt.get(k, 0)
        cnt[k] = j + 1
        name = hnames[i] if hostile else {'P': f'p{j}', 'F': f'f{j}', 'K': f'k{j}', 'A': 'va', 'W': 'kw'}[k]
        ann = {'all': True, 'none': False, 'one': i == one}.get(amode)
        if ann is None:
            ann = rng.random() < .6
        if k in 'PF':
            dflt = i >= npos - ndef
        elif k == 'K':
            dflt = rng.random() < .5
        else:
            dflt = False
        params.append(Param(i, k, name, ann, dflt))
    return Sig(params), hostile


def build(sig, rng, modname):
    """exec original + twins in a real module; returns (ns, description dict)."""
    pep563 = rng.random() < .12
    ret_ann = rng.random() < .3
    raises = rng.random() < .3
    if ret_ann:
        result = R()
    else:
        result = rng.choice((object(), None, False, 0, [], Sentinel('_RES')))
    exc = rng.choice((ValueError, TypeError, KeyError, StopIteration, MyExc, MyBase, LookupError))('spy')
    src = ''
    if pep563:
        src += 'from __future__ import annotations\n'
    src += (f'def orig({sig.text(True, "_D")}){" -> R" if ret_ann else ""}:\n'
            f'    _LOG.append(locals())\n'
            f'    {"raise _EXC" if raises else "return _RESULT"}\n'
            f'def twin_a({sig.text(False, "_D")}):\n    return locals()\n'
            f'def twin_b({sig.text(False, "_E")}):\n    return locals()\n')
    mod = types.ModuleType(modname)
    sys.modules[modname] = mod
    ns = mod.__dict__
    ns.update(BASE_NS)
    log = []
    ns.update(_LOG=log, _RESULT=result, _EXC=exc)
    exec(compile(src, f'<{modname}>', 'exec', dont_inherit=True), ns)
    return ns, log, result, exc, raises, dict(
        signature=src.split('\n')[1 if pep563 else 0], pep563=pep563, body='raise _EXC' if raises else 'return _RESULT',
        result=short(result, 40), exc=type(exc).__name__)


def vname(v):
    if type(v) in MARK or type(v) in SUB:
        return type(v).__name__
    if isinstance(v, type):
        return 'class ' + v.__name__
    return short(v, 30)


def good_value(rng, p):
    if p is not None and p.ann:
        return (SUB if rng.random() < .2 else MARK)[p.idx]()
    r = rng.random()
    if r < .7:
        return MARK[rng.randrange(NMARK)]()
    return rng.choice((None, 0, 'v', object()))


def bad_value(rng, sig, p):
    """A value violating p's marker (p annotated)."""
    r = rng.random()
    if r < .55:
        # a neighbour's marker first: what an off-by-one would accept
        near = [q.idx for q in sig.params if q.idx != p.idx and abs(q.idx - p.idx) <= 1]
        j = rng.choice(near) if near and rng.random() < .7 else rng.choice([i for i in range(NMARK) if i != p.idx])
        return MARK[j]()
    if r < .7 and p.dflt:
        return DEF_A[p.idx]          # the parameter's own default passed explicitly: passed, hence checked
    return rng.choice((None, MARK[p.idx], object(), 0))


def directed_shapes(sig, rng):
    """(tag, npos, keyword names) - the hard cases of the design."""
    P, F, K = [p.name for p in sig.P], [p.name for p in sig.F], [p.name for p in sig.K]
    npp = len(sig.pos)
    r = sum(1 for p in sig.pos if not p.dflt)               # required positionals are a prefix
    Kreq = [p.name for p in sig.K if not p.dflt]
    Freq_kw = [p.name for p in sig.F if not p.dflt]
    va = sig.A.name if sig.A else 'va'
    kw = sig.W.name if sig.W else 'kw'
    out = [('all-positional', npp, K),
           ('keyword-style', len(P), F + K),
           ('minimal', r, Kreq),
           ('minimal-flex-by-keyword', min(r, len(P)), Freq_kw + Kreq),
           ('surplus-1', npp + 1, Kreq),
           ('surplus-3', npp + 3, K),
           ('novel-keyword', npp, K + ['zz0']),
           ('novel-keywords-minimal', r, Kreq + ['zz0', 'zz1']),
           ('keyword-named-like-varpos', r, Kreq + [va]),
           ('keyword-named-like-varkw', r, Kreq + [kw]),
           ('no-arguments', 0, []),
           ('everything-by-keyword', 0, P + F + K)]
    if r or Kreq:
        if Kreq and (not r or rng.random() < .5):
            out.append(('missing-kwonly', r, Kreq[1:]))
        else:
            out.append(('missing-positional', r - 1, Kreq))
    if P:
        out.append(('posonly-name-as-keyword', max(r, len(P)), Kreq + [rng.choice(P)]))
        out.append(('posonly-names-as-keywords-unpassed', 0, P + Freq_kw + Kreq))
        out.append(('posonly-name-as-keyword-first', npp, [P[0]] + K))
    if F:
        out.append(('duplicate', npp, [rng.choice(F)] + Kreq))
        out.append(('duplicate-first-flex', len(P) + 1, [F[0]] + Kreq))
    return out


def random_shape(sig, rng):
    npp = len(sig.pos)
    npos = rng.choice((rng.randint(0, npp), rng.randint(0, npp), npp, rng.randint(0, npp + 2), len(sig.P)))
    names = []
    for p in sig.F + sig.K:
        bound_pos = p.kind == 'F' and sig.pos.index(p) < npos
        if rng.random() < (.12 if bound_pos else .6 if p.dflt else .9):
            names.append(p.name)
    for p in sig.P:
        if rng.random() < .2:
            names.append(p.name)
    for nm in ('zz0', 'zz1', sig.A.name if sig.A else 'va', sig.W.name if sig.W else 'kw'):
        if rng.random() < .12 and nm not in names:
            names.append(nm)
    rng.shuffle(names)
    return ('random', npos, names)


def make_call(sig, rng, npos, names, mode):
    """Values for a shape.  mode: 'ok' (all satisfy), 'one-bad', 'random'."""
    slots = [(i, None) for i in range(npos)] + [(None, nm) for nm in names]
    targets = [sig.intended(i, nm) for i, nm in slots]
    annotated = [s for s, t in enumerate(targets) if t is not None and t.ann]
    bad = set()
    if mode == 'one-bad' and annotated:
        bad = {rng.choice(annotated)}
    elif mode == 'random':
        bad = {s for s in annotated if rng.random() < .3}
    vals = [bad_value(rng, sig, t) if s in bad else good_value(rng, t) for s, t in enumerate(targets)]
    return vals[:npos], dict(zip(names, vals[npos:]))


def same_binding(seen, ref, sig):
    """Did the original receive the identical objects in the identical places?"""
    if list(seen) != list(ref):
        return f'parameter names differ: {list(seen)} vs {list(ref)}'
    for p in sig.params:
        a, b = seen[p.name], ref[p.name]
        if p.kind == 'A':
            if type(a) is not tuple or len(a) != len(b) or any(x is not y for x, y in zip(a, b)):
                return f'*{p.name} differs'
        elif p.kind == 'W':
            if type(a) is not dict or list(a) != list(b) or any(a[k] is not b[k] for k in b):
                return f'**{p.name} differs (keys {list(a)} vs {list(b)})'
        elif a is not b:
            return f'{p.name} is another object ({vname(a)} instead of {vname(b)})'
    return None


BLAME = re.compile(r'parameter (\w+)=')


def check_call(W, stream, idx, sig, ns, log, result, exc_obj, raises, wrapped, args, kwargs, tag, mode, desc):
    """One decorated call against the twins.  Returns True if a violation was reported."""
    twin_a, twin_b = ns['twin_a'], ns['twin_b']
    try:
        ref = twin_a(*args, **kwargs)
    except TypeError as e:
        ref, why = None, str(e)
    if ref is not None:
        refb = twin_b(*args, **kwargs)
    del log[:]
    got = raised = None
    try:
        got = wrapped(*args, **kwargs)
    except (KeyboardInterrupt, SystemExit):
        raise
    except BaseException as e:   # noqa
        raised = e
    ran = len(log)
    W.count('calls')
    W.count('shape.' + tag)

    def witness(**kw):
        w = dict(desc, call=dict(args=[vname(v) for v in args], kwargs={k: vname(v) for k, v in kwargs.items()}),
                 shape=tag, values=mode, original_ran=ran,
                 observed=('returned ' + vname(got)) if raised is None else f'raised {type(raised).__name__}: {short(raised, 260)}')
        w.update(kw)
        return w

    def callsrc():
        return 'f(' + ', '.join([vname(v) for v in args] + [f'{k}={vname(v)}' for k, v in kwargs.items()]) + ')'

    is_viol = isinstance(raised, BeartypeCallHintParamViolation)
    # ---- (a) the call cannot bind ---------------------------------------------------------
    if ref is None:
        W.count('calls.nonbinding')
        if ran:
            W.violation('nonbinding-call-ran-original', f'{desc["signature"]}: {callsrc()} cannot bind ({why}) but the original ran {ran}x',
                        stream, idx, witness(twin=why))
            return True
        if raised is None:
            W.violation('nonbinding-call-returned', f'{desc["signature"]}: {callsrc()} cannot bind ({why}) but returned', stream, idx, witness(twin=why))
            return True
        if is_viol:
            W.count('nonbinding.param_violation')
        elif isinstance(raised, TypeError) and raised is not exc_obj:
            W.count('nonbinding.TypeError')
        else:
            W.violation('nonbinding-call-wrong-exception:' + type(raised).__name__,
                        f'{desc["signature"]}: {callsrc()} cannot bind ({why}) but raised {type(raised).__name__}', stream, idx, witness(twin=why))
            return True
        return False
    # ---- the call binds: which values violate their own parameter's marker? ------------------
    W.count('calls.binding')
    badp, unpassed_ann_default = [], []
    for p in sig.params:
        v = ref[p.name]
        if p.kind == 'A':
            if v:
                W.count('bound.varpos_extra')
            if p.ann and any(not isinstance(x, MARK[p.idx]) for x in v):
                badp.append(p)
        elif p.kind == 'W':
            if v:
                W.count('bound.varkw_extra')
                if any(q.name in v for q in sig.P):
                    W.count('bound.posonly_name_in_varkw')
            if p.ann and any(not isinstance(x, MARK[p.idx]) for x in v.values()):
                badp.append(p)
        else:
            passed = v is refb[p.name]           # the twins differ in their default objects only
            if not passed:
                if p.ann:
                    unpassed_ann_default.append(p)
            elif p.ann and not isinstance(v, MARK[p.idx]):
                badp.append(p)
            if passed and p.kind == 'F':
                W.count('bound.flex_by_keyword' if p.name in kwargs else 'bound.flex_positionally')
    refdesc = {k: ([vname(x) for x in v] if isinstance(v, tuple) else {a: vname(b) for a, b in v.items()} if isinstance(v, dict) else vname(v))
               for k, v in ref.items()}
    # ---- (c) a passed value violates its parameter's marker ------------------------------------
    if badp:
        kinds = '+'.join(sorted({KIND_NAME[p.kind] for p in badp}))
        if ran or raised is None or raised is exc_obj:
            W.violation('violating-value-accepted:' + kinds,
                        f'{desc["signature"]}: {callsrc()} binds {[p.name for p in badp]} to values violating their own markers '
                        f'but the original ran ({ran}x)', stream, idx, witness(twin_binding=refdesc, violating=[p.name for p in badp]))
            return True
        if not is_viol:
            W.violation('violating-call-wrong-exception:' + type(raised).__name__,
                        f'{desc["signature"]}: {callsrc()} should raise a parameter violation, raised {type(raised).__name__}',
                        stream, idx, witness(twin_binding=refdesc, violating=[p.name for p in badp]))
            return True
        W.count('calls.rejected')
        for p in badp:
            W.count('rejected.' + KIND_NAME[p.kind])
        return False
    # ---- (b) everything passed satisfies: transparency -----------------------------------------
    if raised is not None and (raised is not exc_obj or not ran):
        if is_viol:
            m = BLAME.search(str(raised))
            blamed = sig.byname.get(m.group(1)) if m else None
            if ran:
                key = 'violation-after-original-ran'
            elif blamed is not None and blamed in unpassed_ann_default:
                key = 'default-checked'
            else:
                key = 'wrong-parameter-hint-applied'
            W.violation(key, f'{desc["signature"]}: {callsrc()} passes only satisfying values (unpassed annotated defaults: '
                             f'{[p.name for p in unpassed_ann_default]}) but was rejected: {short(raised, 200)}',
                        stream, idx, witness(twin_binding=refdesc))
        else:
            W.violation('binding-call-raised:' + type(raised).__name__,
                        f'{desc["signature"]}: {callsrc()} binds and satisfies every hint but raised {type(raised).__name__}: {short(raised, 200)}',
                        stream, idx, witness(twin_binding=refdesc))
        return True
    if ran != 1:
        key = {0: 'original-not-called', 2: 'original-called-twice'}.get(ran, 'original-called-many-times')
        W.violation(key, f'{desc["signature"]}: {callsrc()} succeeded but the original ran {ran}x', stream, idx, witness(twin_binding=refdesc))
        return True
    diff = same_binding(log[0], ref, sig)
    if diff:
        W.violation('args-not-identical', f'{desc["signature"]}: {callsrc()}: {diff}', stream, idx, witness(twin_binding=refdesc))
        return True
    if raises:
        if raised is not exc_obj:
            W.violation('exception-not-identity', f'{desc["signature"]}: {callsrc()}: the original raised its exception object but '
                                                  f'{"nothing" if raised is None else type(raised).__name__} came out', stream, idx, witness())
            return True
        W.count('exception_identity_checked')
    else:
        if raised is not None or got is not result:
            W.violation('result-not-identity', f'{desc["signature"]}: {callsrc()}: the original returned its result object but another '
                                               f'object came out', stream, idx, witness())
            return True
        W.count('result_identity_checked')
        if desc['return_hint']:
            W.count('result_identity_checked_through_return_hint')
    W.count('calls.accepted')
    if unpassed_ann_default:
        W.count('accepted_with_unpassed_annotated_default')
    return False


def run_case(W, stream, idx, seq, rng):
    sig, hostile = gen_sig(rng, seq)
    modname = f'_c04_{stream}_{idx}'
    try:
        ns, log, result, exc_obj, raises, desc = build(sig, rng, modname)
        desc['return_hint'] = '-> R' in desc['signature']
        cname, dec = rng.choice(CONFS)
        desc['conf'] = cname
        try:
            wrapped = dec(ns['orig'])
        except Exception as e:   # noqa
            W.violation('decorate-raised:' + type(e).__name__, f'@beartype raised on {desc["signature"]}: {short(e, 300)}', stream, idx, desc)
            return
        W.count('signatures')
        W.count('signatures.params_%d' % len(seq))
        W.count('conf.' + cname)
        if hostile:
            W.count('signatures.hostile_names')
        if desc['pep563']:
            W.count('signatures.pep563')
        for p in sig.params:
            W.count('kind.' + KIND_NAME[p.kind])
            if p.ann:
                W.count('annotated.' + KIND_NAME[p.kind])
            if p.dflt and p.ann:
                W.count('annotated_default.' + KIND_NAME[p.kind])
        nontrivial = any(p.ann for p in sig.params)
        if wrapped is ns['orig']:
            W.count('signatures.decorator_was_noop')
        shapes = []
        for tag, npos, names in directed_shapes(sig, rng):
            shapes.append((tag, npos, names, 'ok'))
            shapes.append((tag, npos, names, 'one-bad'))
        for _ in range(8 if W.quick else 16):
            shapes.append(random_shape(sig, rng) + (rng.choice(('ok', 'one-bad', 'random', 'random')),))
        for tag, npos, names, mode in shapes:
            npos = max(0, npos)
            args, kwargs = make_call(sig, rng, npos, list(names), mode)
            W.evaluate((desc['signature'], desc['body'], cname, [vname(v) for v in args], sorted((k, vname(v)) for k, v in kwargs.items()))
                       if nontrivial else None)
            if check_call(W, stream, idx, sig, ns, log, result, exc_obj, raises, wrapped, args, kwargs, tag, mode, desc):
                return
        if len(W.samples) < 4 and nontrivial and len(seq) >= 3:
            W.sample(dict(desc, calls=len(shapes)))
    finally:
        sys.modules.pop(modname, None)


class NotACoroutine(Exception):
    pass


def drive_coroutine(coro):
    """Run a coroutine that never suspends to completion and return its value."""
    import inspect
    if not inspect.iscoroutine(coro):
        raise NotACoroutine(f'calling an async def produced {type(coro).__name__}, not a coroutine')
    try:
        coro.send(None)
    except StopIteration as stop:
        return stop.value
    coro.close()
    raise NotACoroutine('the coroutine suspended although nothing in it awaits')


def run_wraps_case(W, stream, idx, seq, rng):
    """The decorated callable is a functools.wraps closure around the annotated original (the everyday decorator
    idiom): pure pass-through (*args, **kwargs), or with parameters of its own.  Python binds the call to the CLOSURE's
    signature: values bound to the closure's own (unannotated) parameters are nobody's business, and a call whose
    forwarded values all satisfy the original's markers must behave exactly like the undecorated closure."""
    import functools
    sig, hostile = gen_sig(rng, seq)
    if hostile:          # (a closure parameter named like an annotated parameter of the original would inherit its hint)
        return
    modname = f'_c04_{stream}_{idx}'
    try:
        ns, log, result, exc_obj, raises, desc = build(sig, rng, modname)
        orig = ns['orig']
        shape = rng.choice(('pure', 'own-kwonly', 'own-kwonly', 'own-kwonly-defaulted', 'own-leading-positional', 'own-both',
                            'async-adapter'))
        clog = []
        if shape == 'async-adapter':       # the closure's kind differs from the original's: awaited, it is the same call
            @functools.wraps(orig)
            async def closure(*args, **kwargs):
                clog.append(('run', None, None))
                return orig(*args, **kwargs)
        elif shape == 'pure':
            @functools.wraps(orig)
            def closure(*args, **kwargs):
                clog.append(('run', None, None))
                return orig(*args, **kwargs)
        elif shape in ('own-kwonly', 'own-kwonly-defaulted'):
            @functools.wraps(orig)
            def closure(*args, own_label='job', **kwargs):
                clog.append(('run', None, own_label))
                return orig(*args, **kwargs)
        elif shape == 'own-leading-positional':
            @functools.wraps(orig)
            def closure(own_first, *args, **kwargs):
                clog.append(('run', own_first, None))
                return orig(*args, **kwargs)
        else:
            @functools.wraps(orig)
            def closure(own_first, *args, own_label='job', **kwargs):
                clog.append(('run', own_first, own_label))
                return orig(*args, **kwargs)
        cname, dec = rng.choice(CONFS)
        try:
            wrapped = dec(closure)
        except Exception as e:   # noqa
            W.violation('decorate-raised:wraps-closure:' + type(e).__name__,
                        f'@beartype raised on a functools.wraps closure ({shape}) around {desc["signature"]}: {short(e, 300)}', stream, idx, desc)
            return
        W.count('wraps.closures')
        W.count('wraps.shape.' + shape)
        shapes = [(t, n, nm) for t, n, nm in directed_shapes(sig, rng)] + [random_shape(sig, rng) for _ in range(6)]
        for tag, npos, names in shapes:
            npos = max(0, npos)
            args, kwargs = make_call(sig, rng, npos, list(names), 'ok')
            try:
                ns['twin_a'](*args, **kwargs)
            except TypeError:
                continue                      # only calls that bind to the original are judged here
            # values for the closure's own parameters: anything, preferably what a neighbouring hint would reject
            own_first = rng.choice((MARK[rng.randrange(NMARK)](), 'nightly', None, 0))
            own_label = rng.choice((MARK[rng.randrange(NMARK)](), 'nightly', None, 0))
            cargs, ckwargs = list(args), dict(kwargs)
            if shape in ('own-leading-positional', 'own-both'):
                cargs = [own_first] + cargs
            if shape in ('own-kwonly', 'own-both'):
                ckwargs['own_label'] = own_label
            outs = []
            for fn in (closure, wrapped):
                del log[:], clog[:]
                got = raised = None
                try:
                    if shape == 'async-adapter':
                        got = drive_coroutine(fn(*cargs, **ckwargs))
                    else:
                        got = fn(*cargs, **ckwargs)
                except (KeyboardInterrupt, SystemExit):
                    raise
                except BaseException as e:   # noqa
                    raised = e
                outs.append((got, raised, list(log), list(clog)))
            (g0, r0, l0, c0), (g1, r1, l1, c1) = outs
            W.count('wraps.calls')
            W.evaluate((desc['signature'], shape, cname, tag, [vname(v) for v in cargs], sorted((k, vname(v)) for k, v in ckwargs.items())))
            src = f'closure({", ".join([vname(v) for v in cargs] + [f"{k}={vname(v)}" for k, v in ckwargs.items()])})'
            wit = dict(desc, closure_shape=shape, call=src, conf=cname,
                       undecorated=short(r0 if r0 is not None else g0, 120), decorated=short(r1 if r1 is not None else g1, 200))
            if r0 is not None and r0 is not exc_obj:
                W.count('wraps.reference_call_failed(info)')      # the closure itself does not take this call
                continue
            problem = None
            if r1 is not None and r1 is not r0:
                problem = ('wraps-closure:satisfying-call-rejected' if isinstance(r1, BeartypeCallHintViolation)
                           else 'wraps-closure:raised-' + type(r1).__name__)
            elif (r1 is None) != (r0 is None) or g1 is not g0:
                problem = 'wraps-closure:result-not-identity'
            elif len(c1) != 1 or len(l1) != 1:
                problem = f'wraps-closure:ran-{len(c1)}x-original-{len(l1)}x'
            elif c1[0][1] is not c0[0][1] or c1[0][2] is not c0[0][2]:
                problem = 'wraps-closure:own-parameters-not-identical'
            elif same_binding(l1[0], l0[0], sig):
                problem = 'wraps-closure:forwarded-args-not-identical'
            if problem:
                W.violation(problem, f'{shape} closure around {desc["signature"]}: {src} (values forwarded to the original all satisfy '
                                     f'its markers) -> undecorated {wit["undecorated"]}, decorated {wit["decorated"]}', stream, idx, wit)
                return
            W.count('wraps.calls_identical')
    finally:
        sys.modules.pop(modname, None)


def run_stdlib_decorator_case(W, stream, idx, rng):
    """@beartype written ABOVE a standard-library decorator it knows how to see through (functools.lru_cache,
    contextlib.contextmanager): it must behave like the same decorator applied, with the same parameters, on top of
    the checked function (the documented order), call by call, including cache hits and equal values of other types."""
    import contextlib
    import functools
    cname, dec = rng.choice(CONFS)
    kind = rng.choice(('lru_cache', 'lru_cache', 'contextmanager'))
    runs = {'above': [], 'ideal': []}
    wit = dict(kind=kind, conf=cname)
    W.count('stdlib.cases')
    W.count('stdlib.kind.' + kind)
    if kind == 'lru_cache':
        params = dict(maxsize=rng.choice((None, 1, 2, 128)), typed=rng.random() < .5)
        wit['lru_cache'] = params

        def mk(tag):
            def scale(factor: int, value: float = 1.0, *, unit: str = 'u') -> tuple:
                runs[tag].append((factor, value, unit))
                return (factor, value, unit)
            return scale
        try:
            above = dec(functools.lru_cache(**params)(mk('above')))
        except Exception as e:   # noqa
            W.violation('stdlib-decorator:decorate-raised:' + type(e).__name__, f'@beartype above lru_cache({params}) raised {short(e, 200)}',
                        stream, idx, wit)
            return
        ideal = functools.lru_cache(**params)(dec(mk('ideal')))
        got_p = getattr(above, 'cache_parameters', lambda: None)()
        if got_p != params:
            W.violation('stdlib-decorator:lru_cache-parameters-changed',
                        f'@beartype above lru_cache({params}): cache_parameters() is {got_p}', stream, idx, wit)
            return
        pool = [(2,), (2.0,), (True,), (1,), ('x',), (3, 1.5), (3, 1), (2, 1.0), (2,), (3.0, 1.5), (1,), (None,), (2, 1.0, 'k')]
        calls = [rng.choice(pool) for _ in range(rng.choice((6, 10, 16)))]
        for a in calls:
            kw = {'unit': a[2]} if len(a) == 3 else {}
            outs = []
            for f in (above, ideal):
                try:
                    outs.append(('value', f(*a[:2], **kw)))
                except BeartypeCallHintViolation:
                    outs.append(('violation',))
                except Exception as e:   # noqa
                    outs.append(('raised', type(e).__name__))
            W.count('stdlib.calls')
            W.evaluate(('lru', cname, tuple(sorted(params.items(), key=str)), tuple(map(repr, calls[:4]))))
            if outs[0] != outs[1] or len(runs['above']) != len(runs['ideal']):
                W.violation('stdlib-decorator:lru_cache-differs-from-documented-order',
                            f'@beartype above lru_cache({params}) under {cname}: call {a!r} of {calls!r} -> {outs[0]} '
                            f'(body ran {len(runs["above"])}x so far) but lru_cache(...)(beartype(f)) -> {outs[1]} '
                            f'(body ran {len(runs["ideal"])}x)', stream, idx, dict(wit, calls=[repr(c) for c in calls]))
                return
        W.count('stdlib.sequences_identical')
    else:
        def mk(tag):
            def managed(a: int, b: str = 's'):
                runs[tag].append(('enter', a, b))
                try:
                    yield (a, b)
                finally:
                    runs[tag].append(('exit',))
            return managed
        ret = rng.choice((None, 'Iterator'))
        fa, fi = mk('above'), mk('ideal')
        if ret:
            import typing
            fa.__annotations__['return'] = typing.Iterator[tuple]
            fi.__annotations__['return'] = typing.Iterator[tuple]
        try:
            above = dec(contextlib.contextmanager(fa))
        except Exception as e:   # noqa
            W.violation('stdlib-decorator:decorate-raised:' + type(e).__name__, f'@beartype above contextmanager raised {short(e, 200)}',
                        stream, idx, wit)
            return
        ideal = contextlib.contextmanager(dec(fi))
        for a in [rng.choice(((1,), (1, 't'), ('x',), (1, 2), (True,), ())) for _ in range(6)]:
            outs = []
            for f in (above, ideal):
                try:
                    with f(*a) as v:
                        outs.append(('entered', v))
                except BeartypeCallHintViolation:
                    outs.append(('violation',))
                except Exception as e:   # noqa
                    outs.append(('raised', type(e).__name__))
            W.count('stdlib.calls')
            W.evaluate(('cm', cname, ret, a))
            if outs[0] != outs[1] or runs['above'] != runs['ideal']:
                W.violation('stdlib-decorator:contextmanager-differs-from-documented-order',
                            f'@beartype above contextmanager under {cname}: managed{a!r} -> {outs[0]}, events {runs["above"][-3:]}; '
                            f'contextmanager(beartype(f)) -> {outs[1]}, events {runs["ideal"][-3:]}', stream, idx, wit)
                return
        W.count('stdlib.sequences_identical')


def main():
    W = Worker('C04', RULE, assumptions=[
        'the reference binding is Python\'s own binder (undecorated twins with the identical signature returning locals()); '
        'a parameter counts as passed iff two twins differing only in their default objects bind it to the same object',
        'the positional/keyword split received by the original is observed through its binding (fully for *args/**kwargs)',
        'keyword names starting with __beartype are out of scope (reserved)',
        'calls that fail at the call site before reaching the callable (f(**a, **b) with a common key) are out of scope'])
    quick = W.quick
    nmax = 4 if quick else 6
    seqs = [s for n in range(nmax + 1) for s in kind_sequences(n)]
    limit = 10 ** 9
    seen = set()
    for idx in W.cases('sig', limit, frac=0.65):
        seq = seqs[idx % len(seqs)]
        run_case(W, 'sig', idx, seq, W.rng('sig', idx))
        W.add('kind_sequences', seq or '(none)')
        if len(seen) < len(seqs):
            seen.add(seq)
            if len(seen) == len(seqs):
                W.count('workers_that_covered_every_kind_sequence')
    for idx in W.cases('big', limit, frac=0.85):
        rng = W.rng('big', idx)
        n = rng.randint(nmax + 1, nmax + 2) if quick else rng.randint(nmax + 1, NMARK - 1)
        cand = list(kind_sequences(n))
        run_case(W, 'big', idx, rng.choice(cand), rng)
        W.count('signatures.sampled_beyond_exhaustive')
    for idx in W.cases('wraps', limit, frac=0.94):
        run_wraps_case(W, 'wraps', idx, seqs[idx % len(seqs)], W.rng('wraps', idx))
    for idx in W.cases('stdlib', limit):
        run_stdlib_decorator_case(W, 'stdlib', idx, W.rng('stdlib', idx))
    W.need('stdlib.cases', 100)
    W.need('stdlib.sequences_identical', 80)
    W.need('wraps.closures', 300)
    W.need('wraps.calls_identical', 3000)

    W.need('|kind_sequences|', len(seqs))      # every legal kind sequence up to nmax parameters, over all workers
    W.need('signatures', 1500)
    W.need('signatures.sampled_beyond_exhaustive', 200)
    W.need('calls', 60000)
    W.need('calls.binding', 20000)
    W.need('calls.nonbinding', 10000)
    W.need('calls.rejected', 5000)
    W.need('calls.accepted', 8000)
    W.need('accepted_with_unpassed_annotated_default', 1500)
    W.need('nonbinding.TypeError', 3000)
    W.need('result_identity_checked', 3000)
    W.need('result_identity_checked_through_return_hint', 500)
    W.need('exception_identity_checked', 1000)
    for k in KIND_NAME.values():
        W.need('kind.' + k, 300)
        W.need('annotated.' + k, 200)
        W.need('rejected.' + k, 200)
    W.need('bound.varpos_extra', 1000)
    W.need('bound.varkw_extra', 1000)
    W.need('bound.posonly_name_in_varkw', 300)
    W.need('bound.flex_by_keyword', 1000)
    W.need('shape.duplicate', 300)
    W.need('shape.posonly-name-as-keyword', 300)
    W.need('shape.surplus-1', 300)
    W.finish()


guarded(main)

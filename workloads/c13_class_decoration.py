"""C13 - decorating a class equals decorating its methods; the documented no-op
cases are identities (differential monitor over generated class programs plus
identity / metadata assertions; DESIGN §4 C13).

Per case one module specification is generated and rendered three times:
  A  `@bt` on every decorated top-level class (source-level class decoration);
  P  the undecorated source with `K = __c13_posthoc__(K)` after each decorated
     class: the hook snapshots `vars()` of the class and of everything nested in
     it, calls `bt(K)` at the same program point and asserts identity, descriptor
     kinds, metadata, `__wrapped__`, untouched bases, idempotence;
  B  the same source with `@bt` written by hand on every function the decorated
     classes define themselves (below @classmethod/@staticmethod/@property,
     recursively for nested classes, never for inherited members).
The same generated call list is then applied to all three modules and the outcome
traces are compared."""
import contextlib
import dataclasses   # noqa: F401  (made available to generated modules)
import functools
import hashlib
import inspect
import io
import json
import os
import re
import subprocess
import sys
import types
import typing
import warnings

sys.path.insert(0, os.path.dirname(os.path.dirname(os.path.abspath(__file__))))
from vlib.worker import REPO, Worker, guarded, short, use_repo

use_repo()
from beartype import (BeartypeConf, BeartypeStrategy, BeartypeViolationVerbosity, FrozenDict, beartype)  # noqa: E402
from beartype.roar import BeartypeCallHintViolation   # noqa: E402

RULE = ('modules of 1-4 generated classes (plain / class / static methods, properties with getter+setter+deleter, '
        '__init__/__call__/__len__/__add__, nested classes 1-2 deep, bases decorated and undecorated, dataclasses, '
        'class attributes aliasing other classes, members pre-wrapped by a functools.wraps decorator or marked '
        '@no_type_check, params/returns hinted int|str|float|list[int]|Optional[int]|Union|tuple|dict|Any|quoted class '
        'references incl. self references, positional/default/keyword-only/*args/**kw parameters) x 17 configurations; '
        'routes A (@bt on the class), P (bt(cls) after the class statement) and B (@bt by hand on every own member) '
        'receive the same 6-18 generated calls (instance, class, static, property get/set/del, dunder, inherited, '
        'nested; arguments satisfying and violating the hints) and must give equal outcome traces; the P hook asserts '
        'class identity, descriptor kind, __name__/__qualname__/__doc__/inspect.signature, __wrapped__ is the object '
        'that was in the class, untouched undecorated bases / aliased classes, identity of unannotated / '
        '@no_type_check / O0 members, idempotence of re-decoration; a second stream decides the no-op identities for '
        'callables and classes; the lead worker runs -O / -OO / PYTHONOPTIMIZE child interpreters; distinct by '
        '(source text, configuration); non-trivial = every case (each has at least one annotated member or no-op)')

GEN = 'c13gen_'
MISSING = object()


class MyViol(Exception):
    pass


def deco(f):
    """The functools.wraps-style user decorator of the generated programs."""
    @functools.wraps(f)
    def user_wrapper(*a, **k):
        return f(*a, **k)
    return user_wrapper


S = BeartypeStrategy
CONFS = {
    'default': None,
    'conf()': {},
    'O0': dict(strategy=S.O0),
    'O0+debug': dict(strategy=S.O0, is_debug=True),
    'On': dict(strategy=S.On),
    'Ologn': dict(strategy=S.Ologn),
    'norandom': dict(is_random=False),
    'On+norandom': dict(strategy=S.On, is_random=False),
    'tower': dict(is_pep484_tower=True),
    'debug': dict(is_debug=True),
    'viol_type': dict(violation_type=MyViol),
    'viol_param': dict(violation_param_type=MyViol),
    'viol_return': dict(violation_return_type=MyViol),
    'verbosity_min': dict(violation_verbosity=BeartypeViolationVerbosity.MINIMAL),
    'nocolor': dict(is_color=False),
    'warn_decor': dict(warning_cls_on_decorator_exception=UserWarning),
    'overrides': dict(hint_overrides=FrozenDict({float: typing.Union[int, float]})),
    'pep557': dict(is_pep557_fields=True),
}
CONF_NAMES = list(CONFS)


def make_bt(conf_name):
    kw = CONFS[conf_name]
    return beartype if kw is None else beartype(conf=BeartypeConf(**kw))


def is_o0(conf_name):
    return conf_name.startswith('O0')


def pick_conf(rng, exclude=()):
    r = rng.random()
    if r < .25:
        return 'default'
    if r < .33 and 'O0' not in exclude:
        return 'O0'
    names = [n for n in CONF_NAMES if n not in exclude]
    return rng.choice(names)


# ---- hints and values --------------------------------------------------------------------------
SIMPLE = {
    'int': ([3, 0, -7], ['x', None, 2.5]),
    'str': (['ab', ''], [1, None]),
    'float': ([1.5], ['x', 1]),
    'list[int]': ([[1, 2], []], [['a', 'b'], (1, 2), 5]),
    'Optional[int]': ([None, 4], ['x', [1]]),
    'Union[int, str]': ([1, 'a'], [None, 2.5]),
    'tuple[int, str]': ([(1, 'a')], [(1, 2), 'x']),
    'dict[str, int]': ([{'a': 1}, {}], [{'a': 'b'}, {1: 1}, 3]),
    'typing.Any': ([1, 'x', None], [2.5]),
    'object': ([1, 'x'], [None]),
}
SIMPLE_NAMES = list(SIMPLE)
SIMPLE_WEIGHTS = [6, 4, 1, 3, 3, 1, 1, 1, 1, 1]
ANY_VALUES = [1, 'x', None, [1], 2.5, 'ab', 0]


def pick_hint(rng, ctx, qual=None):
    """A hint source string; class references are quoted strings."""
    if not ctx['annotate']:
        return None
    r = rng.random()
    if qual is not None and r < (.2 if '.' not in qual else .1):
        return repr(qual)
    if r < .3 and ctx['quals']:
        return repr(rng.choice(ctx['quals']))
    return rng.choices(SIMPLE_NAMES, SIMPLE_WEIGHTS)[0]


def is_ref(hint):
    return bool(hint) and hint[0] in '\'"'


def pick_value(rng, hint, ctx, literal=False):
    if hint is None or hint == 'None':
        v = rng.choice(ANY_VALUES)
        return v
    if is_ref(hint):
        q = hint[1:-1]
        if literal:
            return rng.choice((None, 3))
        r = rng.random()
        if r < .6:
            return ('@obj', q)
        if r < .8 or len(ctx['quals']) < 2:
            return rng.choice((3, None, 'x'))
        return ('@obj', rng.choice([x for x in ctx['quals'] if x != q]))
    good, bad = SIMPLE[hint]
    return rng.choice(good) if rng.random() < .6 else rng.choice(bad)


# ---- specification generator -------------------------------------------------------------------
def gen_params(rng, ctx, qual):
    params, seen_default = [], False
    for i in range(rng.choice((0, 1, 1, 2, 2, 3))):
        hint = pick_hint(rng, ctx, qual) if rng.random() < .75 else None
        default = None
        if seen_default or rng.random() < .25:
            default, seen_default = repr(pick_value(rng, hint, ctx, literal=True)), True
        params.append(dict(name='abc'[i], hint=hint, default=default, star=''))
    r = rng.random()
    if r < .12:
        params.append(dict(name='rest', hint=rng.choice((None, 'int', 'str')) if ctx['annotate'] else None,
                           default=None, star='*'))
    elif r < .22:
        hint = pick_hint(rng, ctx, qual) if rng.random() < .75 else None
        params.append(dict(name='k', hint=hint, default=repr(pick_value(rng, hint, ctx, literal=True)), star='kwonly'))
    if rng.random() < .08:
        params.append(dict(name='kw', hint=rng.choice((None, 'int', 'str')) if ctx['annotate'] else None,
                           default=None, star='**'))
    return params


def gen_expr(rng, params, first):
    names = [p['name'] for p in params]
    opts = ['None', '1', "'s'"]
    if first == 'self':
        opts += ['self', 'self._v', 'self._v']
    if first == 'cls':
        opts += ['cls']
    for n in names:
        p = next(q for q in params if q['name'] == n)
        if p['star'] in ('*', '**'):
            opts += [n, f'len({n})']
        else:
            opts += [n, n, n, f'[{n}]', f'str({n})', f'({n}, 1)']
    return rng.choice(opts)


def gen_doc(rng, what):
    return f'doc of {what}' if rng.random() < .5 else None


def gen_member(rng, ctx, qual, kind, name):
    m = dict(kind=kind, name=name, doc=gen_doc(rng, name), ntc=rng.random() < .07, pre=rng.random() < .12)
    if kind == 'property':
        m['params'] = []
        m['ret'] = pick_hint(rng, ctx, qual) if rng.random() < .8 else None
        m['body'] = ['return ' + rng.choice(('self._v', 'self._v', '1', 'self'))]
        m['setter'] = m['deleter'] = None
        if rng.random() < .65:
            m['setter'] = dict(hint=pick_hint(rng, ctx, qual) if rng.random() < .8 else None,
                               ret='None' if ctx['annotate'] and rng.random() < .5 else None)
            if rng.random() < .25:
                m['deleter'] = dict(ret='None' if ctx['annotate'] and rng.random() < .6 else None)
        return m
    first = dict(classmethod='cls', staticmethod=None).get(kind, 'self')
    m['first'] = first
    if name == '__len__':
        m['params'] = []
        m['ret'] = rng.choice(('int', 'int', None, 'str')) if ctx['annotate'] else None
        m['body'] = ['return ' + rng.choice(('self._v', '2', '2'))]
    elif name == '__add__':
        hint = pick_hint(rng, ctx, qual) if rng.random() < .8 else None
        m['params'] = [dict(name='other', hint=hint, default=None, star='')]
        m['ret'] = pick_hint(rng, ctx, qual) if rng.random() < .7 else None
        m['body'] = ['return ' + rng.choice(('other', 'self', '[other]', 'self._v'))]
    elif name == '__init__':
        m['params'] = gen_params(rng, ctx, qual)
        m['ret'] = 'None' if ctx['annotate'] and rng.random() < .6 else None
        m['body'] = ['self._v = ' + gen_expr(rng, m['params'], None)]
    else:
        m['params'] = gen_params(rng, ctx, qual)
        m['ret'] = (pick_hint(rng, ctx, qual) if rng.random() < .9 else 'None') if rng.random() < .75 else None
        if not ctx['annotate']:
            m['ret'] = None
        m['body'] = ['return ' + gen_expr(rng, m['params'], first)]
        if ctx['annotate'] and first == 'self' and rng.random() < .12:
            # fluent methods: typing.Self means the class whose body the method is written in, however deep that is
            m['ret'] = 'typing.Self'
            m['body'] = ['return self']
    return m


def skeleton(rng, name, qual, depth):
    c = dict(name=name, qual=qual, depth=depth, nested=[], bases=[], aliases=[], members=[], fields=[],
             decorated=True, ntc=False, dataclass=False, doc=None, classvar=False)
    if depth < 2:
        n = rng.choice((0, 0, 1, 1, 2)) if depth == 0 else rng.choice((0, 0, 1))
        for nm in rng.sample(['In', 'Sub', 'Cfg'], n):
            c['nested'].append(skeleton(rng, nm, f'{qual}.{nm}', depth + 1))
    return c


def flatten(classes):
    out = []
    for c in classes:
        out.append(c)
        out.extend(flatten(c['nested']))
    return out


def fill(rng, ctx, c, main, under_ntc=False):
    c['doc'] = gen_doc(rng, c['qual'])
    c['dataclass'] = rng.random() < .15
    c['ntc'] = c['depth'] > 0 and rng.random() < .08
    # typing.no_type_check(cls) does not mark property accessors, so "decorate after @no_type_check" cannot be
    # written member by member for them: classes under @no_type_check get no properties
    under_ntc = under_ntc or c['ntc']
    c['classvar'] = rng.random() < .3
    if c['dataclass']:
        seen_default = False
        for i in range(rng.randint(1, 3)):
            hint = rng.choice(('int', 'str', 'Optional[int]', 'list[int]', 'float')) if ctx['annotate'] else 'typing.Any'
            default = None
            if seen_default or rng.random() < .4:
                seen_default = True
                default = repr(rng.choice(SIMPLE[hint][0])) if hint not in ('list[int]',) else None
                if default is None:
                    hint, default = 'int', '0'
            c['fields'].append(dict(name='xyz'[i], hint=hint, default=default))
    lo = 1 if main and c['depth'] == 0 else 0
    for nm in sorted(rng.sample(['m0', 'm1', 'm2', 'm3', 'm4', 'm5'], rng.randint(lo, 5))):
        kind = rng.choices(('method', 'classmethod', 'staticmethod', 'property'), (4, 2, 2, 2))[0]
        if kind == 'property' and under_ntc:
            kind = 'method'
        c['members'].append(gen_member(rng, ctx, c['qual'], kind, nm))
    for nm in ('__init__', '__call__', '__len__', '__add__'):
        if nm == '__init__' and c['dataclass']:
            continue
        if rng.random() < .25:
            c['members'].append(gen_member(rng, ctx, c['qual'], 'dunder', nm))
    for n in c['nested']:
        fill(rng, ctx, n, main, under_ntc)


def gen_module(rng, annotate=True, single=False):
    """-> module spec: dict(classes=[top-level class specs in definition order], ...)."""
    main_name = rng.choice(('K', 'K', 'Main', 'Node'))
    pool = ['Base', 'Mixin', 'Helper', 'Other'] + rng.choice(([], [], [main_name + 'Base'], [main_name + 'List']))
    n_other = 0 if single else rng.choice((0, 1, 1, 2, 3))
    others = [skeleton(rng, nm, nm, 0) for nm in rng.sample(pool, min(n_other, len(pool)))]
    main = skeleton(rng, main_name, main_name, 0)
    classes = others + [main]
    ctx = dict(annotate=annotate, quals=[c['qual'] for c in flatten(classes)])
    for c in others:
        fill(rng, ctx, c, False)
        c['decorated'] = rng.random() < .4
        c['ntc'] = False
    fill(rng, ctx, main, True)
    # inheritance: main (and sometimes a nested class) from earlier top-level classes
    if others and rng.random() < .7:
        main['bases'] = [c['name'] for c in rng.sample(others, rng.choice((1, 1, 2)) if len(others) > 1 else 1)]
    for n in flatten(main['nested']):
        if others and rng.random() < .2:
            n['bases'] = [rng.choice(others)['name']]
    # class attributes whose value is a class declared elsewhere
    for c in flatten([main]):
        if others and rng.random() < .25:
            c['aliases'].append(dict(name='Ref', target=rng.choice(others)['name']))
    return dict(classes=classes, main=main_name, ctx=ctx)


# ---- rendering ---------------------------------------------------------------------------------
def render_params(first, params):
    out, star_seen = ([first] if first else []), False
    for p in params:
        ann = f": {p['hint']}" if p['hint'] else ''
        if p['star'] == '*':
            out.append(f"*{p['name']}{ann}")
            star_seen = True
        elif p['star'] == '**':
            out.append(f"**{p['name']}{ann}")
        else:
            if p['star'] == 'kwonly' and not star_seen:
                out.append('*')
                star_seen = True
            dflt = '' if p['default'] is None else (f" = {p['default']}" if ann else f"={p['default']}")
            out.append(f"{p['name']}{ann}{dflt}")
    return ', '.join(out)


def render_func(ind, name, first, params, ret, body, doc, decos):
    lines = [ind + d for d in decos]
    lines.append(f"{ind}def {name}({render_params(first, params)}){' -> ' + ret if ret else ''}:")
    if doc:
        lines.append(f'{ind}    """{doc}"""')
    lines += [ind + '    ' + b for b in body]
    return lines


def render_member(m, ind, hand):
    btl = ['@bt'] if hand else []
    inner = btl + (['@typing.no_type_check'] if m['ntc'] else []) + (['@deco'] if m['pre'] else [])
    if m['kind'] == 'property':
        lines = render_func(ind, m['name'], 'self', [], m['ret'], m['body'], m['doc'], ['@property'] + inner)
        if m['setter']:
            s = m['setter']
            lines += render_func(ind, m['name'], 'self', [dict(name='v', hint=s['hint'], default=None, star='')],
                                 s['ret'], ['self._v = v'], None, [f"@{m['name']}.setter"] + btl)
        if m['deleter']:
            lines += render_func(ind, m['name'], 'self', [], m['deleter']['ret'], ['self._v = None'], None,
                                 [f"@{m['name']}.deleter"] + btl)
        return lines
    outer = dict(classmethod=['@classmethod'], staticmethod=['@staticmethod']).get(m['kind'], [])
    ret = m['ret']
    if hand and ret == 'typing.Self':
        # PEP 673 hints are documented as valid inside @beartype-decorated classes only: the member-by-member route
        # cannot spell them and leaves this return unannotated (such methods always return self, which Self accepts)
        ret = None
    return render_func(ind, m['name'], m['first'], m['params'], ret, m['body'], m['doc'], outer + inner)


def render_class(c, ind, route, scope):
    in_scope = scope and not c['ntc']
    top = c['depth'] == 0
    lines = []
    if top and c['decorated'] and route == 'A':
        lines.append('@bt')
    if c['ntc']:
        lines.append(ind + '@typing.no_type_check')
    if c['dataclass']:
        lines.append(ind + '@dataclasses.dataclass')
    lines.append(f"{ind}class {c['name']}{'(' + ', '.join(c['bases']) + ')' if c['bases'] else ''}:")
    body, i2 = [], ind + '    '
    if c['doc']:
        body.append(f'{i2}"""{c["doc"]}"""')
    for f in c['fields']:
        body.append(f"{i2}{f['name']}: {f['hint']}" + (f" = {f['default']}" if f['default'] is not None else ''))
    if c['classvar']:
        body.append(f'{i2}X = 3')
        body.append(f'{i2}T = int')
    for a in c['aliases']:
        body.append(f"{i2}{a['name']} = {a['target']}")
    for m in c['members']:
        body += render_member(m, i2, route == 'B' and in_scope)
    for n in c['nested']:
        body += render_class(n, i2, route, in_scope)
    lines += body or [i2 + 'pass']
    if route == 'B' and in_scope and c['dataclass']:
        lines.append(f"{ind}{c['name']}.__init__ = bt({c['name']}.__init__)")
    if route == 'P' and top and c['decorated']:
        lines.append(f"{c['name']} = __c13_posthoc__({c['name']})")
    return lines


def render_module(ms, route):
    lines = ['import dataclasses, functools, typing', 'from typing import Optional, Union', '']
    for c in ms['classes']:
        lines += render_class(c, '', route, c['decorated']) + ['']
    return '\n'.join(lines)


_modcount = [0]


def build(src, tag, **globs):
    _modcount[0] += 1
    name = f'{GEN}{os.getpid()}_{_modcount[0]}_{tag}'
    mod = types.ModuleType(name)
    mod.__dict__.update(globs)
    sys.modules[name] = mod
    exec(compile(src, f'<{name}>', 'exec'), mod.__dict__)
    return mod


def drop(*mods):
    for m in mods:
        if m is not None:
            sys.modules.pop(m.__name__, None)


# ---- the post-hoc hook: identity and metadata assertions ---------------------------------------
FUNC_KINDS = (types.FunctionType, classmethod, staticmethod, property)


def roles(obj):
    if isinstance(obj, types.FunctionType):
        return [('func', obj)]
    if isinstance(obj, (classmethod, staticmethod)):
        return [('__func__', obj.__func__)]
    if isinstance(obj, property):
        return [(r, getattr(obj, r)) for r in ('fget', 'fset', 'fdel') if getattr(obj, r) is not None]
    return []


def safe_sig(f):
    try:
        return inspect.signature(f)
    except Exception as e:   # noqa
        return ('no-signature', type(e).__name__)


def snapshot(cls):
    """dict(vars(cls)) plus, per function-like entry, the metadata of every underlying function."""
    before, meta = dict(vars(cls)), {}
    for name, val in before.items():
        if isinstance(val, FUNC_KINDS):
            meta[name] = [(role, f, getattr(f, '__name__', MISSING), getattr(f, '__qualname__', MISSING),
                           getattr(f, '__doc__', MISSING), safe_sig(f),
                           bool(getattr(f, '__annotations__', None)), bool(getattr(f, '__no_type_check__', False)))
                          for role, f in roles(val) if isinstance(f, types.FunctionType)]
    return before, meta


def walk(cls, spec):
    out = [(cls, spec)]
    for n in spec['nested']:
        sub = vars(cls).get(n['name'])
        if isinstance(sub, type):
            out += walk(sub, n)
    return out


def sig_diff(s0, s1, glob):
    """Classify the difference between two signatures: None | mechanism suffix."""
    if s0 == s1:
        return None
    if not (isinstance(s0, inspect.Signature) and isinstance(s1, inspect.Signature)):
        return 'unavailable'
    p0, p1 = list(s0.parameters.values()), list(s1.parameters.values())
    if [(p.name, p.kind) for p in p0] != [(p.name, p.kind) for p in p1]:
        return 'parameters'
    for a, b in zip(p0, p1):
        try:
            same = (a.default is b.default) or a.default == b.default
        except Exception:   # noqa
            same = False
        if not same:
            return 'default'
    pairs = [(a.annotation, b.annotation) for a, b in zip(p0, p1)] + [(s0.return_annotation, s1.return_annotation)]
    worst = None
    for a, b in pairs:
        if a is b or (type(a) is type(b) and a == b):
            continue
        if 'NotImplementedType' in repr(b) and 'NotImplementedType' not in repr(a):
            kind = 'binary-dunder-return-annotation-widened-with-NotImplementedType'
        elif isinstance(a, str) and not isinstance(b, str):
            if (getattr(type(b), '__module__', '') or '').startswith('beartype') or \
                    (getattr(b, '__module__', '') or '').startswith('beartype'):
                kind = 'string-annotation-replaced-by-forwardref-proxy'
            else:
                try:
                    ref = eval(a, dict(glob))   # noqa: S307 - generated text
                    kind = 'string-annotation-replaced-by-referent' if (ref is b or ref == b) else 'annotation'
                except Exception:   # noqa
                    kind = 'string-annotation-replaced-by-object'
        else:
            kind = 'annotation'
        if worst is None or kind == 'annotation':
            worst = kind
    return worst or 'other'


def prefix_alias_targets(specs):
    """Names of top-level classes that a class of `specs` aliases as a class attribute and whose name merely
    starts with the qualified name of that aliasing class (`class K: Ref = KBase`)."""
    return {a['target'] for s in specs for a in s['aliases'] if a['target'].startswith(s['qual'])}


INTERNAL_KEYS = ('__sizeof__',)     # where beartype keeps its "already decorated" marker


def dict_changes(before, after):
    """Names whose value differs by identity, ignoring beartype's marker carrier and an empty __annotations__
    that CPython creates lazily on first read."""
    out = []
    for n in sorted(set(before) | set(after)):
        if n in INTERNAL_KEYS or before.get(n, MISSING) is after.get(n, MISSING):
            continue
        if n == '__annotations__' and n not in before and after[n] == {}:
            continue
        out.append(n)
    return out


_WARN_EXC = re.compile(r'^\s*((?:\w+\.)*\w*(?:Error|Exception)\w*)\b', re.M)
_WARN_FRAME = re.compile(r'File "[^"]*[/\\]beartype[/\\]([^"]+)\.py", line \d+, in (\w+)')


def parse_decor_warning(msg):
    """'<Exc>@<module>:<function>' of a decoration exception that the configuration turned into a warning, or None."""
    if 'not decoratable by @beartype' not in msg:
        return None
    excs, frames = _WARN_EXC.findall(msg), _WARN_FRAME.findall(msg)
    exc = excs[-1].split('.')[-1] if excs else 'unknown'
    origin = f"{frames[-1][0].replace('/', '.')}:{frames[-1][1]}" if frames else '?'
    return f'{exc}@{origin}'


def member_class(obj):
    return 'descriptor-rebuilt' if isinstance(obj, (classmethod, staticmethod, property)) else type(obj).__name__


def origin_of(exc):
    """module:function of the innermost beartype frame of an exception."""
    tb, best = exc.__traceback__, '?'
    while tb is not None:
        fn = tb.tb_frame.f_code.co_filename
        if os.sep + 'beartype' + os.sep in fn:
            mod = fn.split(os.sep + 'beartype' + os.sep, 1)[1][:-3].replace(os.sep, '.')
            best = f'{mod}:{tb.tb_frame.f_code.co_name}'
        tb = tb.tb_next
    return best


class PostHoc:
    """`K = __c13_posthoc__(K)`: decorate K here and assert everything C13 says about the result."""

    def __init__(self, ms, conf_name, bt, rng):
        self.ms, self.conf_name, self.bt = ms, conf_name, bt
        self.other_conf = pick_conf(rng, exclude=('pep557',))
        self.findings, self.counts, self.decor_warnings = [], {}, []

    def bump(self, k, n=1):
        self.counts[k] = self.counts.get(k, 0) + n

    def report(self, key, what):
        self.findings.append((key, what))

    def __call__(self, cls):
        ms = self.ms
        glob = sys.modules[cls.__module__].__dict__
        spec = next(c for c in ms['classes'] if c['name'] == cls.__name__)
        walked = walk(cls, spec)
        snaps = [(k, s) + snapshot(k) for k, s in walked]
        outsiders = {}
        for c in ms['classes']:
            obj = glob.get(c['name'])
            if isinstance(obj, type) and obj is not cls and not c['decorated']:
                for k, s in walk(obj, c):
                    outsiders[s['qual']] = (k, s, dict(vars(k)))
        with warnings.catch_warnings(record=True) as ws:
            warnings.simplefilter('always')
            res = self.bt(cls)
        self.decor_warnings += [str(w.message) for w in ws]
        self.bump('classes_decorated_posthoc')
        if res is not cls:
            self.report('class-not-same-object', f'bt({spec["qual"]}) returned {short(res, 80)}')
            return res
        if any(parse_decor_warning(str(w.message)) for w in ws):
            return res      # decoration failed half-way (reported by the caller): nothing more to learn here
        wrappers = []       # (class spec, member name, beartype wrapper function)
        o0 = is_o0(self.conf_name)
        inherited_names = set()
        for b in spec['bases']:
            bs = next(c for c in ms['classes'] if c['name'] == b)
            inherited_names |= {m['name'] for m in bs['members']}
        for k, s, before, meta in snaps:
            after = dict(vars(k))
            where = f'class {s["qual"]} under conf {self.conf_name}'
            gained = [n for n in sorted(set(after) - set(before)) if n in dict_changes(before, after)]
            lost = sorted(set(before) - set(after))
            for name in gained:
                if name in inherited_names:
                    self.report('inherited-member-wrapped:copied-into-subclass',
                                f'{where}: decoration added {name!r} (a member of a base) to the class __dict__')
                else:
                    self.report('class-gained-attribute', f'{where}: decoration added {name!r} to the class __dict__')
            for name in lost:
                self.report('class-lost-attribute', f'{where}: decoration removed {name!r}')
            for name, old in before.items():
                if name not in after:
                    continue
                new = after[name]
                if name not in meta:
                    if new is not old and name not in ('__dict__', '__weakref__'):
                        key = 'class-not-same-object:nested' if isinstance(old, type) else 'non-callable-attribute-replaced'
                        self.report(key, f'{where}: attribute {name!r} {short(old, 60)} became {short(new, 60)}')
                    continue
                kind = type(old).__name__
                self.bump('members_checked')
                self.bump('kind_checked.' + kind)
                if type(new) is not type(old):
                    self.report(f'descriptor-kind-changed:{kind}',
                                f'{where}: member {name!r} was a {kind}, is a {type(new).__name__}')
                    continue
                if isinstance(old, property) and new.__doc__ != old.__doc__:
                    self.report('metadata-lost:__doc__:property', f'{where}: property {name!r} __doc__ {old.__doc__!r} -> {new.__doc__!r}')
                new_roles = dict(roles(new))
                for role, f0, n0, q0, d0, sig0, annotated, ntc in meta[name]:
                    f1 = new_roles.get(role, MISSING)
                    w2 = f'{where}: member {name!r} ({kind}.{role})'
                    if f1 is MISSING:
                        self.report(f'descriptor-role-lost:{kind}.{role}', w2 + ' has no such function any more')
                        continue
                    must_be_same = (not annotated and 'unannotated') or (ntc and 'no_type_check') or (o0 and 'O0') or None
                    if f1 is f0:
                        self.bump('members_left_identical')
                        if must_be_same:
                            self.bump('noop_member_identities')
                    else:
                        if must_be_same:
                            self.report(f'noop-not-identity:{must_be_same}-member:{kind}',
                                        w2 + f' is {must_be_same} but was replaced by {short(f1, 80)}')
                        self.bump('wrappers_checked')
                        w = getattr(f1, '__wrapped__', MISSING)
                        if w is MISSING:
                            self.report(f'wrapped-missing:{kind}', w2 + ' wrapper has no __wrapped__')
                        elif w is not f0:
                            self.report(f'wrapped-not-original:{kind}', w2 + f' wrapper.__wrapped__ is {short(w, 80)}, not the '
                                        f'object that was in the class ({short(f0, 80)})')
                        else:
                            wrappers.append((s, name, f1))
                    for attr, v0 in (('__name__', n0), ('__qualname__', q0), ('__doc__', d0)):
                        v1 = getattr(f1, attr, MISSING)
                        if v1 != v0:
                            self.report(f'metadata-lost:{attr}', w2 + f' {attr} {short(v0, 60)} -> {short(v1, 60)}')
                    d = sig_diff(sig0, safe_sig(f1), glob)
                    self.bump('signatures_compared')
                    if d:
                        self.report(f'signature-changed:{d}', w2 + f' inspect.signature {sig0} -> {safe_sig(f1)}')
        # undecorated classes (bases, aliased classes, bystanders) must be untouched
        aliased = {a['target'] for _, s in walked for a in s['aliases']}
        prefixed = prefix_alias_targets([s for _, s in walked])
        for q, (k, s, before) in outsiders.items():
            after = dict(vars(k))
            self.bump('undecorated_classes_checked')
            top = q.split('.')[0]
            if top in spec['bases']:
                self.bump('undecorated_bases_checked')
            if top in aliased:
                self.bump('aliased_classes_checked')
            changed = dict_changes(before, after)
            if changed:
                if top in prefixed:
                    key = 'foreign-class-wrapped:qualname-prefix'
                elif top in spec['bases']:
                    key = 'inherited-member-wrapped'
                else:
                    key = 'foreign-class-wrapped'
                self.report(key, f'decorating {spec["qual"]} (conf {self.conf_name}) changed {changed} in the __dict__ of '
                                 f'undecorated class {q}' + (' (an aliased class attribute)' if top in aliased else '')
                                 + (' (a base)' if top in spec['bases'] else ''))
        # idempotence
        afters = [(k, s, dict(vars(k))) for k, s in walked]
        with warnings.catch_warnings():
            warnings.simplefilter('ignore')
            for label, dec in (('same-conf', self.bt), ('plain', beartype), (self.other_conf, make_bt(self.other_conf))):
                for k, s in walked[:3]:
                    r2 = dec(k)
                    self.bump('redecorations_checked')
                    if r2 is not k:
                        self.report('redecoration-not-identity:class', f'decorating decorated class {s["qual"]} again ({label}) returned {short(r2, 80)}')
            for k, s, snap in afters:
                for name in dict_changes(snap, dict(vars(k))):
                    self.report(f'redecoration-changed-member:{member_class(snap.get(name, vars(k).get(name)))}',
                                f'decorating decorated class {s["qual"]} again (first conf {self.conf_name}, then plain / '
                                f'{self.other_conf}) replaced attribute {name!r} ({type(snap.get(name)).__name__})')
            for s, name, f1 in wrappers[:5]:
                for dec in (self.bt, beartype):
                    r3 = dec(f1)
                    self.bump('wrapper_redecorations_checked')
                    if r3 is not f1:
                        self.report('redecoration-not-identity:wrapper', f'decorating the wrapper of {s["qual"]}.{name} again returned another object')
                r4 = beartype(classmethod(f1))
                if getattr(r4, '__func__', None) is not f1:
                    self.report('redecoration-not-identity:wrapper-in-descriptor',
                                f'beartype(classmethod(<wrapper of {s["qual"]}.{name}>)).__func__ is not that wrapper')
        return res


# ---- calls -------------------------------------------------------------------------------------
def find_class(ms, qual):
    return next(c for c in flatten(ms['classes']) if c['qual'] == qual)


def visible_members(ms, c):
    """name -> (defining class spec, member), own members first, then bases in order."""
    out = {}
    for m in c['members']:
        out[m['name']] = (c, m)
    for b in c['bases']:
        bs = find_class(ms, b)
        for m in bs['members']:
            out.setdefault(m['name'], (bs, m))
        if bs['dataclass']:
            out.setdefault('__init__', (bs, None))
    return out


def gen_args(rng, ctx, params):
    args, kwargs = [], {}
    drop_one = rng.random() < .04
    for p in params:
        if p['star'] == '*':
            args += [pick_value(rng, p['hint'], ctx) for _ in range(rng.choice((0, 1, 2)))]
        elif p['star'] == '**':
            if rng.random() < .6:
                kwargs['zz'] = pick_value(rng, p['hint'], ctx)
        elif p['star'] == 'kwonly':
            if rng.random() < .6:
                kwargs[p['name']] = pick_value(rng, p['hint'], ctx)
        else:
            if p['default'] is not None and rng.random() < .4:
                break
            if drop_one:
                drop_one = False
                break
            args.append(pick_value(rng, p['hint'], ctx))
    # pass the last positional by keyword sometimes
    plain = [p for p in params if p['star'] == '']
    if args and len(args) <= len(plain) and not any(p['star'] == '*' for p in params) and rng.random() < .2:
        kwargs[plain[len(args) - 1]['name']] = args.pop()
    return args, kwargs


def member_hints(m):
    if m is None:
        return []
    hs = [p['hint'] for p in m.get('params', [])] + [m.get('ret')]
    if m['kind'] == 'property' and m.get('setter'):
        hs.append(m['setter']['hint'])
    return [h for h in hs if h]


def gen_calls(rng, ms):
    ctx = ms['ctx']
    classes = flatten(ms['classes'])
    weights = [3 if c['qual'].split('.')[0] == ms['main'] else 1 for c in classes]
    v0 = {c['qual']: rng.choice((0, 5, 'x', None, 2)) for c in classes}
    calls = []
    for _ in range(rng.randint(6, 18)):
        c = rng.choices(classes, weights)[0]
        vis = visible_members(ms, c)
        if c['dataclass']:
            vis['__init__'] = (c, None)
        names = sorted(vis) + ['__init__'] * (1 if '__init__' not in vis else 0)
        name = rng.choice(names) if names else '__init__'
        defc, m = vis.get(name, (c, None))
        call = dict(cq=c['qual'], name=name, defq=defc['qual'], args=[], kwargs={}, hints=member_hints(m))
        if m is None:      # dataclass-generated or default __init__
            call['op'] = 'init'
            kind = 'dataclass-__init__' if defc['dataclass'] else 'object-__init__'
            if defc['dataclass']:
                params = [dict(name=f['name'], hint=f['hint'], default=f['default'], star='') for f in defc['fields']]
                call['args'], call['kwargs'] = gen_args(rng, ctx, params)
                call['hints'] = [f['hint'] for f in defc['fields']]
        elif m['kind'] == 'property':
            r = rng.random()
            if r < .5:
                call['op'], kind = 'pget', 'property-get'
            elif r < .9:
                call['op'], kind = 'pset', 'property-set'
                call['args'] = [pick_value(rng, (m['setter'] or {}).get('hint'), ctx)]
            else:
                call['op'], kind = 'pdel', 'property-del'
        elif name == '__init__':
            call['op'], kind = 'init', '__init__'
            call['args'], call['kwargs'] = gen_args(rng, ctx, m['params'])
        elif name == '__call__':
            call['op'], kind = 'call', '__call__'
            call['args'], call['kwargs'] = gen_args(rng, ctx, m['params'])
        elif name == '__len__':
            call['op'], kind = 'len', '__len__'
        elif name == '__add__':
            call['op'], kind = 'add', '__add__'
            call['args'] = [pick_value(rng, m['params'][0]['hint'], ctx)]
        else:
            kind = m['kind']
            via_cls = rng.random() < (.15 if kind == 'method' else .6)
            call['op'] = 'cls' if via_cls else 'inst'
            call['pass_self'] = via_cls and kind == 'method'
            call['args'], call['kwargs'] = gen_args(rng, ctx, m['params'])
        if m is not None and m['pre']:
            kind += ':prewrapped'
        elif m is not None and m['ntc']:
            kind += ':no_type_check'
        elif defc is not c:
            kind += ':inherited'
        elif '.' in c['qual']:
            kind += ':nested'
        call['kind'] = kind
        calls.append(call)
    return calls, v0


def get_class(mod, qual):
    obj = mod
    for part in qual.split('.'):
        obj = getattr(obj, part)
    return obj


_ADDR = re.compile(r'0x[0-9a-fA-F]+')
_MODNAME = re.compile(GEN + r'\d+_\d+_[A-Z]')


def norm(v, depth=0):
    t = type(v)
    if (getattr(t, '__module__', '') or '').startswith(GEN):
        return f'<{t.__qualname__}>'
    if isinstance(v, type) and (getattr(v, '__module__', '') or '').startswith(GEN):
        return f'<class {v.__qualname__}>'
    if depth < 3:
        if t is list:
            return '[' + ', '.join(norm(x, depth + 1) for x in v) + ']'
        if t is tuple:
            return '(' + ', '.join(norm(x, depth + 1) for x in v) + ',)'
        if t is dict:
            return '{' + ', '.join(f'{norm(k, depth + 1)}: {norm(x, depth + 1)}' for k, x in v.items()) + '}'
    # str(obj) of a generated instance carries the module name of the route and an address
    return short(_ADDR.sub('0x', _MODNAME.sub('M', repr(v))), 120)


def run_calls(mod, ms, calls, v0):
    insts = {}

    def inst(q):
        if q not in insts:
            cls = get_class(mod, q)
            o = object.__new__(cls)
            spec = find_class(ms, q)
            for sp in [spec] + [find_class(ms, b) for b in spec['bases']]:
                for f in sp['fields']:
                    o.__dict__[f['name']] = SIMPLE[f['hint']][0][0]
            o.__dict__['_v'] = v0[q]
            insts[q] = o
        return insts[q]

    def val(v):
        return inst(v[1]) if isinstance(v, tuple) and len(v) == 2 and v[0] == '@obj' else v
    trace = []
    for c in calls:
        try:
            cls = get_class(mod, c['cq'])
            args = [val(a) for a in c['args']]
            kwargs = {k: val(a) for k, a in c['kwargs'].items()}
            op = c['op']
            if op == 'init':
                r = cls(*args, **kwargs)
            elif op == 'inst':
                r = getattr(inst(c['cq']), c['name'])(*args, **kwargs)
            elif op == 'cls':
                if c.get('pass_self'):
                    args = [inst(c['cq'])] + args
                r = getattr(cls, c['name'])(*args, **kwargs)
            elif op == 'pget':
                r = getattr(inst(c['cq']), c['name'])
            elif op == 'pset':
                r = setattr(inst(c['cq']), c['name'], args[0])
            elif op == 'pdel':
                r = delattr(inst(c['cq']), c['name'])
            elif op == 'call':
                r = inst(c['cq'])(*args, **kwargs)
            elif op == 'len':
                r = len(inst(c['cq']))
            elif op == 'add':
                r = inst(c['cq']) + args[0]
            else:
                raise RuntimeError(op)
            trace.append(('ok', norm(r)))
        except Exception as e:   # noqa
            if isinstance(e, (BeartypeCallHintViolation, MyViol)):
                trace.append(('violation', type(e).__name__))
            else:
                trace.append(('exc', type(e).__name__))
    return trace


def call_repr(c):
    a = ', '.join([short(x, 40) for x in c['args']] + [f'{k}={short(v, 40)}' for k, v in c['kwargs'].items()])
    return f"{c['op']} {c['cq']}.{c['name']}({a})"


def compare(tA, tX, pair, calls, ms, report):
    """Report the first divergence (and later ones of another mechanism unless state may have diverged)."""
    seen, tainted = set(), False
    prefixed = prefix_alias_targets(flatten([find_class(ms, ms['main'])]))
    for i, (a, x, c) in enumerate(zip(tA, tX, calls)):
        if a == x:
            continue
        deftop = find_class(ms, c['defq'].split('.')[0])
        if 'ForwardRef' in x[1] and x[0] == 'exc' and any(is_ref(h) and '.' in h for h in c['hints']):
            tag = 'hand-decorated-dotted-forward-ref'
        elif not deftop['decorated'] and deftop['name'] in prefixed:
            tag = 'foreign-class-wrapped:qualname-prefix'
        else:
            tag = c['kind']
        key = f'route-outcomes-differ:{pair}:{tag}'
        if key not in seen and not tainted:
            seen.add(key)
            report(key, f'call #{i} {call_repr(c)} [{c["kind"]}, defined in {c["defq"]}]: route {pair.split("-vs-")[0]} gave '
                        f'{a}, route {pair.split("-vs-")[1]} gave {x}')
        if c['op'] in ('pset', 'pdel'):
            tainted = True


# ---- one class case ----------------------------------------------------------------------------
def class_case(rng):
    """-> dict(findings=[(key, what)], counts={}, witness={}, distinct=key)."""
    ms = gen_module(rng)
    has_dc = any(c['dataclass'] for c in flatten(ms['classes']))
    conf_name = pick_conf(rng, exclude=('pep557',) if has_dc else ())
    calls, v0 = gen_calls(rng, ms)
    srcA, srcP, srcB = (render_module(ms, r) for r in 'APB')
    findings, counts = [], {}
    # a program that plain Python rejects (e.g. dataclass field order across bases) says nothing about beartype
    try:
        drop(build(render_module(ms, 'U'), 'U', deco=deco))
    except Exception as e:   # noqa
        drop(sys.modules.get(f'{GEN}{os.getpid()}_{_modcount[0]}_U'))
        return dict(findings=[], counts={'invalid_programs_skipped': 1, 'invalid.' + type(e).__name__: 1},
                    witness=dict(conf='-', source_A=srcA, calls=[]), distinct=None)

    def report(key, what):
        findings.append((key, what))

    def bump(k, n=1):
        counts[k] = counts.get(k, 0) + n
    witness = dict(conf=conf_name, source_A=srcA, calls=[call_repr(c) for c in calls], v0=v0)
    sink = io.StringIO()
    mods = []
    traces = {}
    prefixed = prefix_alias_targets(flatten(ms['classes']))
    failed = False
    with contextlib.redirect_stdout(sink), warnings.catch_warnings():
        warnings.simplefilter('ignore')
        bt = make_bt(conf_name)
        hook = PostHoc(ms, conf_name, bt, rng)
        for route, src in (('A', srcA), ('P', srcP), ('B', srcB)):
            level = 'class' if route in 'AP' else 'members'
            mod = None
            try:
                with warnings.catch_warnings(record=True) as ws:
                    warnings.simplefilter('always')
                    mod = build(src, route, bt=bt, deco=deco, __c13_posthoc__=hook)
            except Exception as e:   # noqa
                import traceback
                report(f'decoration-raised:{level}:' + ('qualname-prefix-alias' if any(t in str(e) for t in prefixed)
                                                        else f'{type(e).__name__}@{origin_of(e)}'),
                       f'building route {route} under conf {conf_name} raised {type(e).__name__}: {short(e, 300)}\n'
                       + traceback.format_exc()[-600:])
                bump('decorations_raised')
                failed = True
                mods.append(sys.modules.get(f'{GEN}{os.getpid()}_{_modcount[0]}_{route}'))
                continue
            mods.append(mod)
            # a configuration may turn decoration exceptions into warnings and leave the object (half) undecorated
            msgs = [str(w.message) for w in ws] + (hook.decor_warnings if route == 'P' else [])
            for msg in msgs:
                parsed = parse_decor_warning(msg)
                if parsed:
                    if any(t in msg.split('Traceback')[-1] for t in prefixed):
                        parsed = 'qualname-prefix-alias'
                    report(f'decoration-raised:{level}:{parsed}',
                           f'building route {route} under conf {conf_name} warned instead of raising: {short(msg[-700:], 700)}')
                    bump('decorations_raised')
                    failed = True
            traces[route] = run_calls(mod, ms, calls, v0)
        if failed:
            traces = {}      # outcomes of half-decorated classes are not comparable
        if 'A' in traces:
            # the source-level decorated classes: same object on re-decoration
            for c in ms['classes']:
                if c['decorated']:
                    k = getattr(mods[0], c['name'])
                    snap = dict(vars(k))
                    r = bt(k)
                    bump('redecorations_checked')
                    if r is not k:
                        report('redecoration-not-identity:class', f'bt(<@bt-decorated {c["qual"]}>) returned another object')
                    for n in dict_changes(snap, dict(vars(k))):
                        report(f'redecoration-changed-member:{member_class(snap.get(n))}',
                               f'bt(<@bt-decorated {c["qual"]}>) under {conf_name} replaced attribute {n!r} ({type(snap.get(n)).__name__})')
    findings += hook.findings
    for k, n in hook.counts.items():
        bump(k, n)
    if 'A' in traces:
        for other, pair in (('B', 'A-vs-B'), ('P', 'A-vs-posthoc')):
            if other in traces:
                compare(traces['A'], traces[other], pair, calls, ms, report)
                bump('calls_compared', len(calls))
        for r in traces:
            bump(f'violations_route_{r}', sum(1 for t in traces[r] if t[0] == 'violation'))
            bump(f'ok_route_{r}', sum(1 for t in traces[r] if t[0] == 'ok'))
        for c in calls:
            bump('call_kind.' + c['kind'].split(':')[0])
            if ':' in c['kind']:
                bump('call_kind.' + c['kind'].split(':')[1])
        witness['trace_A'] = [list(t) for t in traces['A']]
    drop(*mods)
    bump('classes_generated', len(flatten(ms['classes'])))
    bump('conf.' + conf_name)
    for c in flatten(ms['classes']):
        for m in c['members']:
            bump('kind.' + (m['name'] if m['kind'] == 'dunder' else m['kind']))
            if m['kind'] == 'property' and m['setter']:
                bump('kind.property_setter')
            if m['pre']:
                bump('kind.prewrapped')
            if m['ntc']:
                bump('kind.no_type_check_member')
        if c['depth']:
            bump(f'kind.nested{c["depth"]}')
        if c['dataclass']:
            bump('kind.dataclass')
        if c['ntc']:
            bump('kind.no_type_check_nested_class')
        if c['aliases']:
            bump('kind.class_alias_attribute')
    main = find_class(ms, ms['main'])
    for b in main['bases']:
        bump('kind.inherit_decorated' if find_class(ms, b)['decorated'] else 'kind.inherit_undecorated')
    return dict(findings=findings, counts=counts, witness=witness,
                distinct=(hashlib.sha1(srcA.encode()).hexdigest()[:16], conf_name))


# ---- no-op identities --------------------------------------------------------------------------
NOOP_SHAPES = {
    'unannotated': ('def', 'lambda', 'closure', 'async', 'gen', 'bound-method', 'callable-object', 'partial', 'builtin',
                    'class'),
    'no_type_check': ('def', 'closure', 'async', 'gen', 'bound-method', 'callable-object', 'class'),
    'O0': ('def', 'closure', 'async', 'gen', 'bound-method', 'callable-object', 'partial', 'class'),
    'rewrap': ('def', 'closure', 'async', 'gen', 'bound-method'),
}


def noop_case(rng):
    mode = rng.choice(list(NOOP_SHAPES))
    shape = rng.choice(NOOP_SHAPES[mode])
    findings, counts = [], {'noop_mode.' + mode: 1, 'noop_shape.' + shape: 1}
    annotate = mode != 'unannotated'
    conf_name = 'O0' if mode == 'O0' else pick_conf(rng, exclude=('O0', 'O0+debug'))
    if mode == 'O0' and rng.random() < .3:
        conf_name = 'O0+debug'
    ctx = dict(annotate=annotate, quals=[])
    sink = io.StringIO()
    witness = dict(mode=mode, shape=shape, conf=conf_name)
    # objects that are callable through their type's __call__ share one mechanism (the pseudo-callable path)
    key_base = f"{mode}:{'pseudo-callable' if shape in ('callable-object', 'partial', 'builtin') else shape}"
    mod = None
    with contextlib.redirect_stdout(sink), warnings.catch_warnings():
        warnings.simplefilter('ignore')
        bt = make_bt(conf_name)
        if shape == 'class':
            ms = gen_module(rng, annotate=annotate, single=rng.random() < .5)
            for c in flatten(ms['classes']):     # the qualname-prefix alias mechanism belongs to the 'cls' stream
                c['aliases'] = [a for a in c['aliases'] if not a['target'].startswith(c['qual'])]
            src = render_module(ms, 'U')
            witness['source'] = src
            mod = build(src, 'N', bt=bt, deco=deco)
            cls = getattr(mod, ms['main'])
            if mode == 'no_type_check':
                cls = typing.no_type_check(cls)
            spec = find_class(ms, ms['main'])
            snaps = [(k, s, dict(vars(k))) for k, s in walk(cls, spec)]
            try:
                r = bt(cls)
            except Exception as e:   # noqa
                findings.append((f'decoration-raised:class:{type(e).__name__}@{origin_of(e)}',
                                 f'bt(<{mode} class>) under {conf_name} raised {short(e, 200)}'))
                r = cls
            counts['noop_identities_checked'] = 1
            if r is not cls:
                findings.append((f'noop-not-identity:{key_base}', f'bt(<{mode} class {spec["qual"]}>) under {conf_name} returned another object'))
            for k, s, before in snaps:
                after = dict(vars(k))
                for name, old in before.items():
                    new = after.get(name, MISSING)
                    if isinstance(old, FUNC_KINDS):
                        if type(new) is not type(old):
                            findings.append((f'descriptor-kind-changed:{type(old).__name__}', f'{mode} class {s["qual"]}.{name} under {conf_name}'))
                            continue
                        if new is not old:
                            counts['noop_descriptor_objects_rebuilt(info)'] = counts.get('noop_descriptor_objects_rebuilt(info)', 0) + 1
                        for (role, f0), (_, f1) in zip(roles(old), roles(new)):
                            # per function: typing.no_type_check(cls) does not mark property accessors, and a
                            # dataclass generates an annotated __init__ even when nothing else is annotated
                            why = (not getattr(f0, '__annotations__', None) and 'unannotated') or \
                                (getattr(f0, '__no_type_check__', False) and 'no_type_check') or (mode == 'O0' and 'O0')
                            if not why:
                                continue
                            counts['noop_member_identities'] = counts.get('noop_member_identities', 0) + 1
                            if f0 is not f1:
                                findings.append((f'noop-not-identity:{why}-member:{type(old).__name__}',
                                                 f'{mode} class {s["qual"]}: function of member {name!r} ({role}) replaced under {conf_name}'))
                    elif new is not old and name not in ('__dict__', '__weakref__'):
                        findings.append(('non-callable-attribute-replaced', f'{mode} class {s["qual"]}.{name}'))
        else:
            params = gen_params(rng, ctx, None)
            if annotate and not any(p['hint'] for p in params):
                params = [dict(name='a', hint='int', default=None, star='')] + [p for p in params if p['name'] != 'a']
            ret = rng.choice(('int', 'str', None)) if annotate else None
            ntc = ['@typing.no_type_check'] if mode == 'no_type_check' else []
            if shape == 'lambda':
                simple = [p for p in params if p['star'] == '']
                lam_params = ', '.join(p['name'] + ('=' + p['default'] if p['default'] is not None else '') for p in simple)
                src = f'f = lambda {lam_params}: 1'
            elif shape == 'def':
                src = '\n'.join(render_func('', 'f', None, params, ret, ['return 1'], 'doc f', ntc))
            elif shape == 'async':
                src = '\n'.join(render_func('', 'f', None, params, ret, ['return 1'], None, ntc)).replace('def f', 'async def f')
            elif shape == 'gen':
                src = '\n'.join(render_func('', 'f', None, params, None if not annotate else 'typing.Iterator[int]',
                                            ['yield 1'], None, ntc))
            elif shape == 'closure':
                src = 'def mk():\n    x = 1\n' + '\n'.join(render_func('    ', 'f', None, params, ret, ['return x'], None, ntc)) + \
                      '\n    return f\nf = mk()'
            elif shape == 'bound-method':
                src = 'class H:\n' + '\n'.join(render_func('    ', 'm', 'self', params, ret, ['return 1'], None, ntc)) + '\nf = H().m'
            elif shape == 'callable-object':
                src = 'class H:\n' + '\n'.join(render_func('    ', '__call__', 'self', params, ret, ['return 1'], None, ntc)) + '\nf = H()'
            elif shape == 'partial':
                p2 = [dict(name='z', hint='int' if annotate else None, default=None, star='')] + params
                src = 'import functools\n' + '\n'.join(render_func('', 'g', None, p2, ret, ['return 1'], None, ntc)) + \
                      '\nf = functools.partial(g, 1)'
            else:
                src = 'f = ' + rng.choice(('len', 'abs', 'repr', 'sorted'))
            src = 'import typing\nfrom typing import Optional, Union\n' + src
            witness['source'] = src
            mod = build(src, 'N')
            f = mod.f
            counts['noop_identities_checked'] = 1
            try:
                if mode == 'rewrap':
                    w = bt(f)
                    c2 = pick_conf(rng, exclude=('O0', 'O0+debug'))   # O0 on what may be a bound method: the 'O0' mode
                    witness['second_conf'] = c2
                    r = make_bt(c2)(w)
                    r2 = bt(w)
                    if w is not f:
                        counts['rewrap_of_real_wrapper'] = 1
                    if r is not w or r2 is not w:
                        findings.append((f'redecoration-not-identity:wrapper:{shape}',
                                         f'decorating the wrapper of an annotated {shape} again (first {conf_name}, then {c2}) returned another object'))
                    if getattr(w, '__wrapped__', MISSING) is not f and w is not f:
                        findings.append((f'wrapped-not-original:{shape}', f'wrapper.__wrapped__ is {short(getattr(w, "__wrapped__", None), 80)}'))
                else:
                    r = bt(f)
                    if r is not f:
                        findings.append((f'noop-not-identity:{key_base}',
                                         f'bt(<{mode} {shape}>) under conf {conf_name} returned {short(r, 100)} instead of the object itself ({short(f, 100)})'))
            except Exception as e:   # noqa
                findings.append((f'noop-raises:{key_base}:{type(e).__name__}',
                                 f'bt(<{mode} {shape}>) under conf {conf_name} raised {type(e).__name__}: {short(e, 200)}'))
    drop(mod)
    return dict(findings=findings, counts=counts, witness=witness,
                distinct=('noop', mode, shape, conf_name, hashlib.sha1(witness.get('source', '').encode()).hexdigest()[:12]))


# ---- optimised child interpreters --------------------------------------------------------------
CHILD = r'''
import dataclasses, functools, json, sys, typing
from beartype import beartype, BeartypeConf, BeartypeStrategy
out = {}
def f(a: int) -> int: return a
out['function'] = beartype(f) is f
out['function-conf'] = beartype(conf=BeartypeConf(strategy=BeartypeStrategy.On, is_random=False))(f) is f
out['function-call-unchecked'] = beartype(f)('x') == 'x'
class C:
    def m(self, a: int) -> 'C': return a
    @classmethod
    def cm(cls, a: int) -> int: return a
    @staticmethod
    def sm(a: int) -> int: return a
    @property
    def p(self) -> int: return 'x'
    @p.setter
    def p(self, v: int) -> None: pass
    def __call__(self, a: int) -> int: return a
    class In:
        def g(self, a: str) -> str: return a
d, di = dict(vars(C)), dict(vars(C.In))
out['class'] = beartype(C) is C
out['class-members'] = set(vars(C)) == set(d) and all(vars(C)[k] is d[k] for k in d)
out['nested-class-members'] = set(vars(C.In)) == set(di) and all(vars(C.In)[k] is di[k] for k in di)
out['class-conf'] = beartype(conf=BeartypeConf(strategy=BeartypeStrategy.On))(C) is C and all(vars(C)[k] is d[k] for k in d)
out['class-calls-unchecked'] = C().m('x') == 'x' and C.cm('x') == 'x' and C.sm('x') == 'x' and C().p == 'x' and C.In().g(1) == 1
@dataclasses.dataclass
class D:
    x: int
    def m(self, a: int) -> int: return a
dd = dict(vars(D))
out['dataclass'] = beartype(D) is D and all(vars(D)[k] is dd[k] for k in dd) and D('x').x == 'x'
lam = lambda a: a
out['lambda'] = beartype(lam) is lam
c = C()
out['callable-object'] = beartype(c) is c
bm = c.m
out['bound-method'] = beartype(bm) is bm
pr, cm, sm = property(f), classmethod(f), staticmethod(f)
out['property-object'] = beartype(pr) is pr
out['classmethod-object'] = beartype(cm) is cm
out['staticmethod-object'] = beartype(sm) is sm
pa = functools.partial(f, 1)
out['partial'] = beartype(pa) is pa
out['builtin'] = beartype(len) is len
async def af(a: int) -> int: return a
def gf(a: int) -> typing.Iterator[int]: yield a
out['async'] = beartype(af) is af
out['generator'] = beartype(gf) is gf
out['optimize'] = sys.flags.optimize
print('@@C13 ' + json.dumps(out))
'''
CHILD_VARIANTS = [('-O', ['-O'], {}), ('-OO', ['-OO'], {}), ('PYTHONOPTIMIZE=1', [], {'PYTHONOPTIMIZE': '1'})]


def child_case(i):
    label, flags, extra = CHILD_VARIANTS[i]
    env = dict(os.environ, PYTHONPATH=REPO, **extra)
    if not extra:
        env.pop('PYTHONOPTIMIZE', None)
    findings, counts = [], {}
    try:
        p = subprocess.run([sys.executable] + flags + ['-c', CHILD], env=env, capture_output=True, text=True, timeout=120)
    except subprocess.TimeoutExpired:
        return dict(findings=[('harness-error:child-timeout', label)], counts={}, witness=dict(variant=label), distinct=None)
    line = next((ln for ln in p.stdout.splitlines() if ln.startswith('@@C13 ')), None)
    if line is None:
        findings.append((f'noop-raises:optimised-interpreter:{label}',
                         f'the child interpreter ({label}) did not finish: rc={p.returncode} stderr={short(p.stderr[-600:], 600)}'))
    else:
        out = json.loads(line[6:])
        if not out.pop('optimize'):
            findings.append(('harness-error:child-not-optimised', label))
        for case, ok in out.items():
            counts['noop_child_checked'] = counts.get('noop_child_checked', 0) + 1
            if ok is not True:
                findings.append((f'noop-not-identity:optimised-interpreter:{case}', f'under {label}: {case} -> {ok}'))
    return dict(findings=findings, counts=counts, witness=dict(variant=label), distinct=('child', label))


# ---- main --------------------------------------------------------------------------------------
# ---- class factories: distinct classes that share module and qualified name ----------------------------
_FACTORY_MARKS = [int, str, bytes, float, list]


def factory_case(rng):
    """A class factory (type(name, bases, ns) / a class statement in a function) called several times yields distinct
    classes with the same module and qualified name, each with differently annotated members, under a base that is
    decorated, undecorated or defines __sizeof__.  Decorating the n-th such class must still equal decorating its
    members (the per-class "already decorated" bookkeeping must be per class object, not per name)."""
    conf_name = pick_conf(rng)
    bt = make_bt(conf_name)
    findings, counts = [], {}
    base_kind = rng.choice(('decorated', 'decorated', 'plain', 'python-sizeof', 'none'))
    modname = f'{GEN}factory_{os.getpid()}'

    def mk_func(name, T, qual):
        if name == 'prop':
            def f(self):
                return self._v
            f.__annotations__ = {'return': T}
        elif name == 'sm':
            def f(a):
                return a
            f.__annotations__ = {'a': T, 'return': T}
        else:
            def f(self, a):
                return a
            f.__annotations__ = {'a': T, 'return': T}
        f.__name__, f.__qualname__, f.__module__ = name, f'{qual}.{name}', modname
        return f

    class Base0:
        def ping(self, a: int) -> int:
            return a
    Base0.__module__, Base0.__qualname__ = modname, 'Base0'
    if base_kind == 'python-sizeof':
        Base0.__sizeof__ = lambda self: 64
    sink = io.StringIO()
    with contextlib.redirect_stdout(sink), warnings.catch_warnings():
        warnings.simplefilter('ignore')
        try:
            Base = bt(Base0) if base_kind == 'decorated' else Base0
        except Exception:   # noqa
            return dict(findings=[], counts={'factory_base_decoration_failed(info)': 1}, witness={}, distinct=None)
        bases = () if base_kind == 'none' else (Base,)
        Ts = [rng.choice(_FACTORY_MARKS) for _ in range(rng.choice((2, 3, 4)))]
        members = rng.sample(['conv', 'cm', 'sm', 'prop'], rng.choice((1, 2, 3, 4)))
        made = []
        for gen_i, T in enumerate(Ts):
            pair = {}
            for route in 'AB':
                ns = {'__module__': modname, '__qualname__': 'Impl'}
                for m in members:
                    f = mk_func(m, T, 'Impl')
                    if route == 'B':
                        f = bt(f)
                    ns[m] = classmethod(f) if m == 'cm' else staticmethod(f) if m == 'sm' else property(f) if m == 'prop' else f
                cls = type('Impl', bases, ns)
                try:
                    if route == 'A':
                        cls = bt(cls)
                except Exception as e:   # noqa
                    findings.append((f'factory:decoration-raised:{type(e).__name__}',
                                     f'class {gen_i + 1} of the factory (members over {T.__name__}, base {base_kind}, conf {conf_name}) '
                                     f'raised {short(e, 200)}'))
                    cls = None
                pair[route] = cls
            made.append((T, pair))
        for gen_i, (T, pair) in enumerate(made):
            if pair['A'] is None:
                continue
            good = {int: 3, str: 's', bytes: b'b', float: 1.5, list: [1]}[T]
            bad = {int: 's', str: 3, bytes: 's', float: 's', list: 3}[T]
            for m in members:
                for val, vname_ in ((good, 'satisfying'), (bad, 'violating')):
                    outs = {}
                    for route in 'AB':
                        inst = object.__new__(pair[route])
                        inst._v = val
                        try:
                            if m == 'prop':
                                inst.prop
                            elif m == 'sm':
                                pair[route].sm(val)
                            elif m == 'cm':
                                pair[route].cm(val)
                            else:
                                inst.conv(val)
                            outs[route] = 'ok'
                        except Exception as e:   # noqa
                            outs[route] = 'violation' if 'Violation' in type(e).__name__ or type(e) is MyViol else 'raised:' + type(e).__name__
                    counts['factory_calls_compared'] = counts.get('factory_calls_compared', 0) + 1
                    if outs['A'] != outs['B']:
                        findings.append((f'factory:route-outcomes-differ:class-{min(gen_i + 1, 2)}{"+" if gen_i else ""}',
                                         f'class {gen_i + 1} made by the factory (same module and qualified name "Impl", members over '
                                         f'{T.__name__}, base {base_kind}, conf {conf_name}): {m}({vname_} value) -> class-decorated '
                                         f'{outs["A"]}, member-decorated {outs["B"]}'))
    counts['factory_cases'] = 1
    counts['factory_base.' + base_kind] = 1
    return dict(findings=findings[:3], counts=counts,
                witness=dict(conf=conf_name, base=base_kind, members=members, marks=[t.__name__ for t in Ts]),
                distinct=('factory', conf_name, base_kind, tuple(members), tuple(t.__name__ for t in Ts)))


def absorb(W, stream, idx, res):
    for k, n in res['counts'].items():
        W.count(k, n)
    seen = set()
    for key, what in res['findings']:
        if key in seen:
            continue
        seen.add(key)
        W.violation(key, what, stream, idx, res['witness'])


def main():
    W = Worker('C13', RULE, assumptions=[
        'route B decorates in the documented stacking order (@classmethod/@staticmethod/@property above @beartype, '
        '@beartype above a functools.wraps user decorator and above @no_type_check); the functions a dataclass generates '
        'are decorated by hand after the class statement (C.__init__ = bt(C.__init__)); members of a @no_type_check '
        'nested class are left undecorated in route B',
        'list / dict arguments are uniformly satisfying or uniformly violating, so the verdict does not depend on which '
        'item the sampler draws',
        'the key "__sizeof__" that decoration adds to a class __dict__ (beartype\'s "already decorated" marker) is not '
        'counted as a member change',
        'for descriptors (classmethod/staticmethod/property) of unannotated / @no_type_check / O0 members the identity '
        'of the underlying function is required, not of the descriptor object (descriptors are not callables); rebuilt '
        'descriptor objects are only counted (noop_descriptor_objects_rebuilt(info))',
        'is_pep557_fields=True is not combined with generated dataclasses (it adds field checks that no member '
        'decoration can express)',
        'instances used as receivers are made with object.__new__ and a preset _v, so that a violating __init__ does not '
        'hide the remaining calls; __init__ is exercised by its own calls'])
    limit = 400000 if W.quick else 20000000

    if W.is_lead():
        idxs = [int(W.replay_case['index'])] if W.replay_case else range(len(CHILD_VARIANTS))
        for i in idxs:
            res = child_case(i)
            W.evaluate(res['distinct'])
            absorb(W, 'directed', i, res)

    for stream, fn, frac in (('noop', noop_case, .2), ('factory', factory_case, .3), ('cls', class_case, 1.0)):
        lim = limit if stream == 'cls' else (3000 if W.quick else 200000)
        for idx in W.cases(stream, lim, frac):
            rng = W.rng(stream, idx)
            try:
                res = fn(rng)
            except Exception as e_:   # noqa
                import traceback
                if isinstance(e_, TypeError) and 'follows default argument' in str(e_):
                    # generator slip: a dataclass field without default after one with (plain Python refuses the source)
                    W.count('invalid_generated_sources_skipped')
                    continue
                W.violation('harness-error', traceback.format_exc()[-1500:], stream, idx, None)
                W.count('harness_errors')
                continue
            W.evaluate(res['distinct'])
            if 'invalid_programs_skipped' in res['counts']:
                absorb(W, stream, idx, res)
                continue
            W.count(stream + '_cases')
            if stream == 'cls' and len(W.samples) < 2:
                W.sample(dict(conf=res['witness']['conf'], source_A=short(res['witness']['source_A'], 900),
                              calls=res['witness']['calls'][:6]))
            absorb(W, stream, idx, res)

    W.need('factory_cases', 50)
    W.need('factory_calls_compared', 500)
    W.need('cls_cases', 300)
    W.need('classes_generated', 800)
    W.need('classes_decorated_posthoc', 300)
    W.need('calls_compared', 5000)
    W.need('violations_route_A', 300)
    W.need('violations_route_B', 300)
    W.need('violations_route_P', 300)
    W.need('ok_route_A', 500)
    W.need('members_checked', 2000)
    W.need('wrappers_checked', 800)
    W.need('signatures_compared', 2000)
    W.need('noop_member_identities', 200)
    W.need('undecorated_bases_checked', 50)
    W.need('redecorations_checked', 600)
    W.need('wrapper_redecorations_checked', 300)
    for k in ('method', 'classmethod', 'staticmethod', 'property', 'property_setter', '__init__', '__call__', '__len__',
              '__add__', 'nested1', 'nested2', 'dataclass', 'prewrapped', 'no_type_check_member', 'inherit_decorated',
              'inherit_undecorated', 'class_alias_attribute'):
        W.need('kind.' + k, 20)
    for k in ('function', 'classmethod', 'staticmethod', 'property'):
        W.need('kind_checked.' + k, 100)
    for k in ('O0', 'On', 'norandom', 'default'):
        W.need('conf.' + k, 5)
    W.need('noop_identities_checked', 100)
    for m in NOOP_SHAPES:
        W.need('noop_mode.' + m, 10)
    W.need('noop_child_checked', 40)
    W.finish()


guarded(main)

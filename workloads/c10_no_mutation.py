"""C10 - checking never modifies or consumes its subject (spy logs against a
read-only allowlist + drain-and-compare + identity snapshots, DESIGN §4 C10)."""
import collections
import os
import sys

sys.path.insert(0, os.path.dirname(os.path.dirname(os.path.abspath(__file__))))
from vlib.worker import Worker, guarded, short, use_repo

use_repo()
from vlib import draws

draws.install()
from vlib import engine, hints, spies   # noqa: E402
import beartype   # noqa: E402
from beartype.roar import BeartypeDecorHintPepUnsupportedException  # noqa: E402

RULE = ('(1) hints of grammar G x objects (conforming, violating, unrelated) whose builtin containers are replaced, '
        'at every nesting level, by spy subclasses logging every method call; (2) one-shot subjects (generators, '
        'iterators, generator-protocol objects, non-collection iterables/containers/reversibles, defaultdicts) with '
        'planted items under Iterable/Iterator/Generator/Container/Reversible/Collection/Mapping hints in root, '
        'tuple, union and mapping-value contexts, accept and reject paths; all six entry points; after every check '
        'the spy log must stay inside the read-only allowlist, one-shot subjects must still yield exactly the planted '
        'items, identity snapshots must be unchanged and the wrapped callable must have received the identical '
        'object; (3) modules of annotated assignments (plain, attribute, nested-attribute and subscripted targets; '
        'right-hand sides that count their evaluations, draw from a shared iterator or build spies / one-shot iterators) '
        'imported under the import hook and unhooked: evaluation log, factory calls, iterator position, stored values and '
        'spy mutations must be equal; distinct by (hint, object shape, entry point); non-trivial = the object contains a '
        'spy or one-shot')

BASES = (list, tuple, dict, set, frozenset, collections.deque)
# what a check may run on its subject: the read-only protocol calls the property names (hooks, __len__, iteration and
# indexing of re-iterable collections, __eq__, repr()) and the accessors validators placed by the user reach
# (attribute reads).  Truth-testing, copying, searching (__bool__, copy, count, index, get, __format__) are not among them.
ALLOWED_EVENTS = spies.READONLY_EVENTS - {'copy', 'count', 'index', 'get', 'format', 'sizeof'}    # ('bool' = asked by a user predicate; the checking code's own truth tests are logged as 'truth-test')


def spyify(x, depth=0):
    t = type(x)
    e = hints.env()
    if depth > 4:
        return x
    if t in (list, e['ListSub']):
        return spies.SpyList([spyify(i, depth + 1) for i in x])
    if t in (tuple, e['TupleSub']):
        return spies.SpyTuple([spyify(i, depth + 1) for i in x])
    if t is collections.defaultdict:
        return spies.SpyDefaultDict(x.default_factory, {spyify(k, depth + 1): spyify(v, depth + 1) for k, v in x.items()})
    if t is collections.OrderedDict:
        return spies.SpyOrderedDict([(spyify(k, depth + 1), spyify(v, depth + 1)) for k, v in x.items()])
    if t is collections.Counter:
        c = spies.SpyCounter()
        for k, v in x.items():
            dict.__setitem__(c, k, v)
        return c
    if t in (dict, e['DictSub']):
        return spies.SpyDict({spyify(k, depth + 1): spyify(v, depth + 1) for k, v in x.items()})
    if t in (set, e['SetSub']):
        return spies.SpySet([spyify(i, depth + 1) for i in x])
    if t is frozenset:
        return spies.SpyFrozenSet([spyify(i, depth + 1) for i in x])
    if t is collections.deque:
        return spies.SpyDeque([spyify(i, depth + 1) for i in x])
    return x


def has_spy(x):
    return type(x).__module__ == 'vlib.spies'


def snap(x, depth=0):
    """Identity snapshot taken through the builtin base methods (not logged)."""
    if depth > 3:
        return id(x)
    for b in BASES:
        if isinstance(x, b) and type(x).__module__ == 'vlib.spies':
            if b is dict:
                return (id(x), [(snap(k, depth + 1), snap(dict.__getitem__(x, k), depth + 1)) for k in dict.__iter__(x)])
            return (id(x), [snap(i, depth + 1) for i in b.__iter__(x)])
    return id(x)


ONE_SHOT_HINTS = [
    # (hint source with {} for the item hint, families of subjects that satisfy its origin)
    ('Iterable[{}]', ('generator', 'PyIterator', 'PyIterable', 'PyGenerator', 'list_iterator', 'map', 'PySizedIterator',
                      'PyCollectionIterator')),
    ('Iterator[{}]', ('generator', 'PyIterator', 'PyGenerator', 'list_iterator', 'map', 'PySizedIterator', 'PyCollectionIterator',
                      'PyCollectionIterator')),
    ('Generator[{}, None, None]', ('generator', 'PyGenerator')),
    ('Container[{}]', ('PyContainer',)),
    ('Reversible[{}]', ('PyReversible',)),
    ('Collection[{}]', ()),
    ('Sequence[{}]', ()),
]


# ---- annotated assignments in a module checked by the import hook -----------------------------------------------
# The hook adds a check after `target: hint = value`.  What the check looks at must be the stored value, looked at
# read-only: every user expression runs as often as in the unhooked module, one-shot sources stay where they were.
CLAW_MODULE = '''
from collections.abc import Iterator, Iterable
from typing import Optional, Union, List
EVALS = []


def tick(name, v):
    EVALS.append(name)
    return v


class Slot:
    pass


class Holder:
    def __init__(self):
        self.slot = Slot()
        self.slot.inner = Slot()
        self.items = [Slot(), Slot()]


HOLDERS = [Holder(), Holder()]


def run(it, make_list, make_iter):
    h = Holder()
    stored = []
{body}
    return stored
'''
CLAW_TARGETS = ('v{i}', 'h.a{i}', 'h.slot.head', 'h.slot.inner.head', 'h.items[1].head', 'HOLDERS[0].slot.head',
                'HOLDERS[1].items[0].head', '(h.slot).head')
CLAW_VALUES = (
    # (hint, value expression, kind)
    ('int', 'next(it)', 'int'), ('int', "tick('t{i}', next(it))", 'int'), ('Optional[int]', 'next(it)', 'int'),
    ('Union[int, str]', "tick('t{i}', next(it))", 'int'),
    ('list[int]', "make_list('l{i}')", 'list'), ('List[int]', "tick('t{i}', make_list('l{i}'))", 'list'),
    ('Iterable[int]', "make_list('l{i}')", 'list'),
    ('Iterator[int]', "make_iter('g{i}')", 'iter'), ('Iterable[int]', "make_iter('g{i}')", 'iter'),
)


def gen_claw_module(rng):
    lines, plan = [], []
    for i in range(rng.choice((2, 3, 4, 5))):
        target = rng.choice(CLAW_TARGETS).format(i=i)
        hint, value, kind = rng.choice(CLAW_VALUES)
        lines.append(f'    {target}: {hint} = {value.format(i=i)}')
        lines.append(f'    stored.append({target})')
        plan.append((target, hint, kind))
    return CLAW_MODULE.format(body='\n'.join(lines)), plan


def run_claw_module(mod):
    """Drive mod.run with counting sources; returns what an outside observer can tell afterwards."""
    made = []
    it = iter(range(100, 140))

    def make_list(name):
        made.append(name)
        return spies.SpyList([1, 2, 3])

    def make_iter(name):
        made.append(name)
        return spies.PyIterator([7, 8, 9], _tag='CLAW')
    spies.reset()
    stored = mod.run(it, make_list, make_iter)
    bad_events = sorted({ev for _, ev, _ in spies.events() if ev not in spies.READONLY_EVENTS})
    shape = []
    for v in stored:
        if isinstance(v, spies.PyIterator):
            shape.append(('iter', v.drain()))
        elif isinstance(v, list):
            shape.append(('list', list.copy(v)))
        else:
            shape.append(('value', v))
    return dict(evals=list(mod.EVALS), made=made, source_next=next(it), stored=shape, spy_mutations=bad_events)


def make_one_shot(fam, items):
    if fam == 'generator':
        return spies.make_generator(items, 'ONE'), items
    if fam == 'list_iterator':
        return iter(list(items)), items
    if fam == 'map':
        return map(lambda v: v, list(items)), items
    cls = getattr(spies, fam)
    return cls(items, _tag='ONE'), items


def drain(o, fam):
    if fam in ('generator', 'list_iterator', 'map'):
        return list(o)
    if fam in ('PyIterator', 'PyGenerator', 'PySizedIterator', 'PyCollectionIterator'):
        return o.drain()
    return list(o._items)


def main():
    W = Worker('C10', RULE, assumptions=[
        'allowlist of read-only protocol calls: ' + ', '.join(sorted(ALLOWED_EVENTS)) + ' (bool = __bool__ asked by a user-placed validator predicate; the checking code\'s own truth tests are logged as truth-test and not allowed)',
        'user __instancecheck__ side effects are the user\'s'])
    quick = W.quick
    depth = 3 if quick else 5
    limit = 400000 if quick else 20000000
    env = hints.env()

    def run_all(stream, idx, src, hint, x, cs, r, what, after):
        """Run every entry point on x; `after(ep)` returns a problem string or None."""
        try:
            subj = engine.Subject(hint, cs)
        except Exception as e:   # noqa
            W.violation('harness-error', repr(e), stream, idx, dict(hint=src))
            return False
        if any(isinstance(e, BeartypeDecorHintPepUnsupportedException) for e in subj.prep_error.values()):
            return False
        if subj.prep_error:
            return False     # exception hygiene is C01/C11's business
        # a recording callable, to see what the wrapped function receives
        seen = []

        # ... through every kind of parameter (the object is localised by different generated code for each)
        pkind = ('flex', 'kwonly', 'posonly', 'varargs', 'varkw', 'flex-by-keyword')[r % 6]
        if pkind == 'kwonly':
            def rec(*, a):
                seen.append(a)
                return a
        elif pkind == 'posonly':
            def rec(a, /):
                seen.append(a)
                return a
        elif pkind == 'varargs':
            def rec(*a):
                seen.append(a[0])
                return a[0]
        elif pkind == 'varkw':
            def rec(**a):
                seen.append(a['k'])
                return a['k']
        else:
            def rec(a):
                seen.append(a)
                return a
        rec.__annotations__ = {'a': hint, 'return': hint}
        try:
            frec = beartype.beartype(conf=subj.conf)(rec)
        except Exception:
            frec = None
        W.count('recorder_parameter_kind.' + pkind)
        for ep in engine.ENTRY_POINTS + ('recorder',):
            before = snap(x)
            spies.reset()
            if ep == 'recorder':
                if frec is None:
                    continue
                seen.clear()
                with draws.armed(r):
                    try:
                        if pkind in ('kwonly', 'flex-by-keyword'):
                            frec(a=x)
                        elif pkind == 'varkw':
                            frec(k=x)
                        else:
                            frec(x)
                    except Exception:
                        pass
                if seen and seen[0] is not x:
                    W.violation('callable-got-other-object', f'wrapped callable received {short(seen[0])} not the object passed: {src}',
                                stream, idx, dict(hint=src, obj=short(x, 300)))
                    return False
                verdict = 'n/a'
            else:
                out = subj.run(ep, x, r)
                verdict = out.verdict
                if verdict == 'skip':
                    continue
            W.count('checks')
            W.count('spy_events', len(spies.LOG))
            W.count('verdict.' + verdict)
            for e in spies.LOG:
                W.add('spy_event_kinds', e[1])
            bad = [e for e in spies.LOG if e[1] not in ALLOWED_EVENTS]
            if bad:
                W.violation('non-readonly-call:' + bad[0][1] + (':' + str(bad[0][0]) if bad[0][1] == 'truth-test' else ''),
                            f'{ep} ({verdict}) made a non-read-only call on its subject: {bad[:4]} hint={src} obj={short(x, 200)}',
                            stream, idx, dict(hint=src, obj=short(x, 400), conf=cs.kw, draw=r, entry_point=ep,
                                              events=[list(map(str, b)) for b in bad[:8]], scenario=what))
                return False
            if snap(x) != before:
                W.violation('contents-changed', f'{ep} ({verdict}) changed the contents of its subject: hint={src} obj={short(x, 200)}',
                            stream, idx, dict(hint=src, obj=short(x, 400), conf=cs.kw, draw=r, entry_point=ep))
                return False
            prob = after(ep, verdict) if after else None
            if prob:
                W.violation(prob[0], f'{ep} ({verdict}): {prob[1]} hint={src}', stream, idx,
                            dict(hint=src, obj=short(x, 400), conf=cs.kw, draw=r, entry_point=ep, scenario=what))
                return False
        return True

    # ---- (1a) mappings whose *lookup* has a side effect (lead worker) -------------------------------------------
    # ChainMap.__getitem__ asks each of its maps in turn with map[key]; a defaultdict never says KeyError, it inserts.
    # A check that fetches "the value of the first key" through the subject's own __getitem__ changes the subject.
    if W.is_lead():
        import typing as _t0
        lookups = [('ChainMap[str, int]', collections.ChainMap[str, int]), ('Mapping[str, int]', _t0.Mapping[str, int]),
                   ('MutableMapping[str, int]', _t0.MutableMapping[str, int]), ('Optional[ChainMap[str, int]]', _t0.Optional[collections.ChainMap[str, int]])]
        for i in (W.cases('lookup', len(lookups)) if W.replay_case else range(len(lookups))):
            src, hint = lookups[i]
            for tail in ({'a': 1}, {'a': 'not an int'}):
                inner = collections.defaultdict(int)
                x = collections.ChainMap(inner, dict(tail))
                run_all('lookup', i, src, hint, x, engine.ConfSpec(), 0, 'chainmap-over-defaultdict',
                        lambda ep, verdict, _i=inner: (('contents-changed:chainmap-over-defaultdict',
                                                        f'the defaultdict inside the ChainMap gained {dict(_i)}') if len(_i) else None))
            W.count('lookup_side_effect_cases')

    # ---- (1b) objects sent into decorated generators reach the body unchanged (lead worker) ----------------
    if W.is_lead():
        import typing as _t

        def drive_async(aw):
            try:
                aw.send(None)
            except StopIteration as e:
                return e.value
            raise RuntimeError('suspended')
        falsy_and_spies = lambda: [0, '', False, (), 0.0, b'', [], {}, spies.SpyList([], _tag='S'), spies.SpyDict({}, _tag='S'),   # noqa: E731
                                   spies.SpyList([1], _tag='S'), spies.SpySet(set(), _tag='S'), 1, 'x', None, object()]
        for kind in ('generator', 'asyncgen'):
            hints_ = ([None, _t.Generator[int, _t.Any, None], _t.Iterator[int], _t.Generator[int, object, None]] if kind == 'generator'
                      else [None, _t.AsyncGenerator[int, _t.Any], _t.AsyncIterator[int], _t.AsyncGenerator[int, object]])
            for hi, h in enumerate(hints_):
                for cname, conf in (('default', beartype.BeartypeConf()), ('is_random=False', beartype.BeartypeConf(is_random=False))):
                    got = []
                    if kind == 'generator':
                        def body():
                            while True:
                                got.append((yield 1))
                    else:
                        async def body():
                            while True:
                                got.append((yield 1))
                    if h is not None:
                        body.__annotations__ = {'return': h}
                    try:
                        dec = beartype.beartype(conf=conf)(body)
                    except Exception:
                        continue
                    vals = falsy_and_spies()
                    o = dec()
                    spies.reset()
                    try:
                        if kind == 'generator':
                            next(o)
                            for v in vals:
                                o.send(v)
                        else:
                            drive_async(o.__anext__())
                            for v in vals:
                                drive_async(o.asend(v))
                    except Exception as e:   # noqa
                        W.violation('sent-values:raised:' + kind, f'sending into a decorated {kind} (-> {h}) raised {e!r}', 'directed', hi,
                                    dict(kind=kind, hint=str(h), conf=cname))
                        continue
                    W.count('sent_value_sequences')
                    W.evaluate(('sent', kind, str(h), cname))
                    wrong = [(i, short(v, 40), short(g, 40)) for i, (v, g) in enumerate(zip(vals, got)) if g is not v]
                    if wrong or len(got) != len(vals):
                        W.violation('sent-value-replaced:' + kind,
                                    f'objects sent into a decorated {kind} (-> {h}, {cname}) did not reach its body unchanged: '
                                    f'(position, sent, received) {wrong[:4]}', 'directed', hi, dict(kind=kind, hint=str(h), conf=cname))
                        continue
                    bad = [e for e in spies.LOG if e[1] not in spies.READONLY_EVENTS]
                    if bad:
                        W.violation('non-readonly-call:' + bad[0][1], f'sending spies into a decorated {kind} (-> {h}) touched them: {bad[:4]}',
                                    'directed', hi, dict(kind=kind, hint=str(h), conf=cname))

    # ---- annotated assignments under the import hook ---------------------------------------------------------
    import importlib
    import shutil
    import tempfile
    from beartype.claw import beartype_package
    root = tempfile.mkdtemp(prefix='vc10_')
    sys.path.insert(0, root)
    sys.dont_write_bytecode = True
    try:
        for idx in W.cases('claw', 60 if quick else 2000, frac=.1):
            rng = W.rng('claw', idx)
            src, plan = gen_claw_module(rng)
            res = {}
            for variant in ('plain', 'hooked'):
                pkg = f'vc10p{os.getpid()}_{idx}{variant}'
                os.makedirs(os.path.join(root, pkg))
                open(os.path.join(root, pkg, '__init__.py'), 'w').close()
                with open(os.path.join(root, pkg, 'mod.py'), 'w') as f:
                    f.write(src)
                importlib.invalidate_caches()
                if variant == 'hooked':
                    beartype_package(pkg)
                try:
                    mod = importlib.import_module(pkg + '.mod')
                    res[variant] = run_claw_module(mod)
                except Exception as e:   # noqa
                    res[variant] = dict(error=f'{type(e).__name__}: {short(e, 200)}')
                finally:
                    sys.modules.pop(pkg + '.mod', None)
                    sys.modules.pop(pkg, None)
            W.evaluate(('claw', tuple(plan)))
            W.count('claw_modules')
            W.count('claw_assignments', len(plan))
            for t, _, _ in plan:
                W.add('claw_target_forms', t.rstrip('0123456789'))
            if 'error' in res['plain']:
                W.count('claw_generator_slip')
                continue
            W.count('checks', len(plan))
            if res['hooked'] != res['plain']:
                field = next((k for k in res['plain'] if res['hooked'].get(k) != res['plain'][k]), 'error')
                W.violation(f'claw-assignment:{field}-differs',
                            f'annotated assignments {plan}: the hooked module differs from the unhooked one in {field}: '
                            f'hooked {short(res["hooked"].get(field, res["hooked"]), 200)} vs plain {short(res["plain"][field], 200)}',
                            'claw', idx, dict(source=src, hooked=repr(res['hooked'])[:1500], plain=repr(res['plain'])[:1500]))
    finally:
        sys.path.remove(root)
        shutil.rmtree(root, ignore_errors=True)


    # ---- (2) one-shot subjects with planted items -------------------------------------
    for idx in W.cases('oneshot', limit, frac=.5):
        rng = W.rng('oneshot', idx)
        fmt, fams = rng.choice(ONE_SHOT_HINTS)
        if not fams:
            continue
        fam = rng.choice(fams)
        try:
            child = hints.safe_gen_hint(rng, rng.randint(0, 1), allow_any=rng.random() < .2, top=False)
        except hints.CantGen:
            continue
        n = rng.choice((0, 1, 2, 5))
        try:
            if rng.random() < .6:
                items = [child.gen_in(rng, hints.CX0, 1) for _ in range(n)]
            else:
                items = [child.gen_bad(rng, hints.CX0, 1) for _ in range(n)]
        except hints.CantGen:
            continue
        ctx = rng.choice(('root', 'root', 'tuple-ok', 'tuple-bad', 'union', 'mapval', 'listitem', 'annotated-bad'))
        base_src = fmt.format(child.src)
        src = {'root': base_src, 'tuple-ok': f'tuple[{base_src}, int]', 'tuple-bad': f'tuple[{base_src}, int]',
               'union': f'Union[{base_src}, int]', 'mapval': f'dict[str, {base_src}]', 'listitem': f'list[{base_src}]',
               'annotated-bad': f'Annotated[{base_src}, Is[pred_even]]'}[ctx]
        try:
            hint = eval(src, env)
        except Exception:
            continue
        cs = engine.gen_conf(rng)
        r = rng.getrandbits(32)
        state = {}

        def fresh():
            o, planted = make_one_shot(fam, items)
            state['o'], state['planted'] = o, list(planted)
            return {'root': o, 'tuple-ok': (o, 1), 'tuple-bad': (o, 'bad'), 'union': o, 'mapval': {'k': o},
                    'listitem': [o], 'annotated-bad': o}[ctx]
        # each entry point gets a fresh subject, then it is drained and compared
        ok = True
        for ep in engine.ENTRY_POINTS:
            x = fresh()
            try:
                subj = engine.Subject(hint, cs)
            except Exception:
                ok = False
                break
            if subj.prep_error:
                ok = False
                break
            spies.reset()
            out = subj.run(ep, x, r)
            if out.verdict == 'skip':
                continue
            W.count('checks')
            W.count('oneshot_checks')
            W.count('verdict.' + out.verdict)
            W.count('spy_events', len(spies.LOG))
            bad = [e for e in spies.LOG if e[1] not in spies.READONLY_EVENTS]
            left = drain(state['o'], fam)
            same = len(left) == len(state['planted']) and all(a is b for a, b in zip(left, state['planted']))
            W.evaluate(('one', src, fam, ctx, ep))
            if bad or not same:
                key = 'one-shot-consumed' if not same else 'non-readonly-call:' + bad[0][1]
                if fam == 'PyCollectionIterator' and not same:
                    # an iterator that is structurally a Collection too: keyed by the hint family, the guard of
                    # each family being a separate piece of generated code
                    key += ':iterator-that-is-a-collection:' + fmt.split('[')[0]
                W.violation(key,
                            f'{ep} ({out.verdict}) consumed/advanced a one-shot {fam}: {len(state["planted"]) - len(left)} '
                            f'of {len(state["planted"])} items gone; events={bad[:3]} hint={src}', 'oneshot', idx,
                            dict(hint=src, family=fam, context=ctx, planted=short(items, 200), left=short(left, 200),
                                 conf=cs.kw, entry_point=ep))
                ok = False
                break
        if ok:
            W.add('oneshot_families', fam)
            W.add('oneshot_contexts', ctx)
            if len(W.samples) < 2:
                W.sample(dict(scenario='one-shot', hint=src, family=fam, context=ctx, planted=short(items, 100)))

    # ---- (1) spy containers under random hints ------------------------------------------
    for idx in W.cases('spy', limit):
        rng = W.rng('spy', idx)
        try:
            node = hints.safe_gen_hint(rng, depth)
        except hints.CantGen:
            continue
        cs = engine.gen_conf(rng)
        cx = hints.Cx(tower=cs.tower)
        m = rng.random()
        try:
            if m < .4:
                x = node.gen_in(rng, cx)
            elif m < .8:
                x = node.gen_bad(rng, cx)
            else:
                x = hints.safe_gen_hint(rng, 2).gen_in(rng, cx)
        except hints.CantGen:
            continue
        try:
            sx = spyify(x)
        except Exception:
            continue
        if not has_spy(sx):
            W.count('no_spy_in_object')
            continue
        ddlen = len(sx) if isinstance(sx, collections.defaultdict) else None

        def after(ep, verdict, sx=sx, ddlen=ddlen):
            if ddlen is not None and collections.defaultdict.__len__(sx) != ddlen:
                return ('defaultdict-grew', f'len(defaultdict) {ddlen} -> {collections.defaultdict.__len__(sx)}')
            return None
        r = rng.choice(draws.draw_set(rng, hints.seq_lens(x), cap=4, extra_random=1))
        W.evaluate((node.src, short(x, 60)))
        for k in node.kinds():
            W.add('kinds', k)
        W.add('spy_types', type(sx).__name__)
        if len(W.samples) < 4 and node.depth() >= 2:
            W.sample(dict(scenario='spy', hint=node.src, obj=short(x, 100), conf=cs.kw))
        run_all('spy', idx, node.src, node.hint(), sx, cs, r, 'spy', after)

    W.need('checks', 3000)
    W.need('claw_assignments', 30)
    W.need('oneshot_checks', 500)
    W.need('spy_events', 3000)
    W.need('verdict.accept', 300)
    W.need('verdict.reject', 300)
    W.finish()


guarded(main)

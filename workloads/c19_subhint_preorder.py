"""C19 - is_subhint is a sound preorder and TypeHint wrappers are coherent
(order-law checker over pools of related hints + soundness witnesses through
the reference model and beartype's own checker).  DESIGN §4 C19."""
import os
import sys

sys.path.insert(0, os.path.dirname(os.path.dirname(os.path.abspath(__file__))))
from vlib.worker import Worker, guarded, short, use_repo

use_repo()
from vlib import draws

draws.install()
from vlib import hints   # noqa: E402
from vlib.hints import (AnnotatedH, Cls, LiteralH, MapH, NoneH, QuasiH, ReitH, SeqH, ShallowH, TupleFixedH,
                        TypeH, UnionH)   # noqa: E402
from beartype.door import TypeHint, is_bearable, is_subhint   # noqa: E402
from beartype.roar import BeartypeException   # noqa: E402

RULE = ('pools of 8-40 hints (no Any) grown from a seed hint by related variations - sub/superclasses in leaf '
        'positions, wider/narrower origins (list<Sequence<Collection<Iterable), unions of subsets / supersets, '
        'Optional, literals and their types, Annotated with metadata or validators, fixed vs variadic tuples, '
        'type[C] up the lattice, NewTypes, TypeVars, user generics, callables - all ordered pairs for reflexivity '
        'and the relation matrix, all triples through related pairs for transitivity, soundness witnesses gen_in(A) '
        'rejected by B according to BOTH the reference model and is_bearable, and the TypeHint container protocol; '
        'distinct by (law, hint sources); non-trivial = the hints of the pair/triple differ')

UP = {'bool': 'int', 'IntSub': 'int', 'C': 'B', 'B': 'A', 'StrSub': 'str', 'int': 'Hashable', 'str': 'Sized',
      'A': 'Hashable', 'tuple': 'Sized', 'list': 'Sized', 'frozenset': 'Hashable'}
DOWN = {}
for k_, v_ in UP.items():
    DOWN.setdefault(v_, []).append(k_)
SEQ_UP = {'list': 'MutableSequence', 'List': 'MutableSequence', 'MutableSequence': 'Sequence'}
REIT_UP = {'set': 'MutableSet', 'Set': 'MutableSet', 'MutableSet': 'AbstractSet', 'frozenset': 'AbstractSet',
           'FrozenSet': 'AbstractSet', 'AbstractSet': 'Collection', 'deque': 'Collection', 'KeysView': 'Collection',
           'ValuesView': 'Collection'}
MAP_UP = {'dict': 'MutableMapping', 'Dict': 'MutableMapping', 'defaultdict': 'dict', 'OrderedDict': 'dict',
          'MutableMapping': 'Mapping', 'Counter': None, 'ChainMap': 'MutableMapping'}


def vary(rng, n):
    """A hint related to node n (possibly n itself rebuilt)."""
    r = rng.random()
    try:
        if r < .15:
            return UnionH([n, NoneH()])
        if r < .28:
            return UnionH([n, hints.safe_gen_hint(rng, 1, allow_any=False, top=False)])
        if r < .36:
            return AnnotatedH(n if not isinstance(n, AnnotatedH) else n.child, [rng.choice(AnnotatedH.JUNK)], False)
        if r < .42 and not isinstance(n, AnnotatedH):
            return AnnotatedH(n, [rng.choice(list(AnnotatedH.VALIDATORS))], True)
        if r < .46:
            return AnnotatedH(hints.AnyH('object'), [rng.choice(list(AnnotatedH.VALIDATORS))], True)
        if isinstance(n, Cls):
            if n.name in UP and rng.random() < .6:
                return Cls(UP[n.name])
            if n.name in DOWN:
                return Cls(rng.choice(DOWN[n.name]))
            if n.name in ('int', 'bool', 'str'):
                vals = {'int': ['0', '1', '2'], 'bool': ['True', 'False'], 'str': ["'a'", "''"]}[n.name]
                return LiteralH(rng.sample(vals, rng.randint(1, len(vals))))
            return n
        if isinstance(n, LiteralH):
            if len(n.value_srcs) > 1 and rng.random() < .5:
                return LiteralH(rng.sample(list(n.value_srcs), len(n.value_srcs) - 1))
            if rng.random() < .5:
                return LiteralH(list(n.value_srcs) + [rng.choice(hints._LITERAL_SRCS)])
            t = type(n.values[0]).__name__
            return Cls(t) if t in ('int', 'bool', 'str', 'bytes') else n
        if isinstance(n, UnionH):
            ms = list(n.members)
            if len(ms) > 2 and rng.random() < .5:
                ms.pop(rng.randrange(len(ms)))
                return UnionH(ms)
            i = rng.randrange(len(ms))
            ms[i] = vary(rng, ms[i])
            return UnionH(ms)
        if isinstance(n, SeqH):
            if rng.random() < .4:
                return SeqH(n.origin, vary(rng, n.child))
            if n.origin in SEQ_UP:
                return SeqH(SEQ_UP[n.origin], n.child)
            if n.origin == 'Sequence':
                return ReitH('Collection', n.child) if rng.random() < .5 else QuasiH(rng.choice(('Iterable', 'Reversible', 'Container')), n.child)
            if n.origin in ('tuplevar', 'Tuplevar'):
                return SeqH('Sequence', n.child) if rng.random() < .5 else TupleFixedH([n.child, n.child])
        if isinstance(n, ReitH):
            if rng.random() < .4:
                return ReitH(n.origin, vary(rng, n.child))
            if REIT_UP.get(n.origin):
                return ReitH(REIT_UP[n.origin], n.child)
            return QuasiH(rng.choice(('Iterable', 'Container')), n.child)
        if isinstance(n, QuasiH):
            return QuasiH(n.origin, vary(rng, n.child))
        if isinstance(n, MapH) and n.origin != 'Counter':
            q = rng.random()
            if q < .3:
                return MapH(n.origin, vary(rng, n.key), n.value)
            if q < .6:
                return MapH(n.origin, n.key, vary(rng, n.value))
            if MAP_UP.get(n.origin):
                return MapH(MAP_UP[n.origin], n.key, n.value)
            return ReitH('Collection', n.key)
        if isinstance(n, TupleFixedH):
            if n.children and rng.random() < .6:
                kids = list(n.children)
                i = rng.randrange(len(kids))
                kids[i] = vary(rng, kids[i])
                return TupleFixedH(kids, n.typing_spelling)
            if n.children and all(c.src == n.children[0].src for c in n.children):
                return SeqH('tuplevar', n.children[0])
            return Cls('tuple')
        if isinstance(n, TypeH):
            names = [UP.get(x, x) if rng.random() < .5 else x for x in n.class_names]
            names = [x for x in names if x in ('A', 'B', 'C', 'D', 'int', 'str', 'bool', 'Col', 'IntSub')]
            return TypeH(names or ['A'], n.typing_spelling) if rng.random() < .8 else Cls('type')
        if isinstance(n, ShallowH):
            kids = [vary(rng, c) if rng.random() < .5 else c for c in n.children]
            return ShallowH(n.form, kids)
        if isinstance(n, AnnotatedH):
            return n.child if rng.random() < .5 else AnnotatedH(vary(rng, n.child), n.metas, n.validators)
        if isinstance(n, hints.NamedH) and n.under is not None:
            return n.under
    except hints.CantGen:
        pass
    return n


def has_any(node):
    # (an ignorable hint directly under validators - Annotated[object, Is[...]], the usual spelling of "a validator
    # over any object" - is not ignorable any more: that one is in)
    validated = {id(x.child) for x in node.walk() if isinstance(x, AnnotatedH) and x.validators and x.child.src == 'object'}
    return any((isinstance(x, hints.AnyH) and id(x) not in validated) or (isinstance(x, hints.NamedH) and x.ignorable())
               or (isinstance(x, TypeH) and not x.class_names)          # type[Any]
               for x in node.walk())


def features(*nodes):
    """Mechanism features of the hints of a (minimised) witness."""
    f = set()
    for nd in nodes:
        for x in nd.walk():
            if isinstance(x, Cls) and x.name in ('Hashable', 'Sized'):
                f.add('abc-subclasshook')
            elif isinstance(x, hints.NamedH):
                # (a user generic whose pseudo-superclass nests its TypeVar inside a child hint is a mechanism of its own)
                f.add('generic-nested-typevar' if x.kind == 'generic:type-of-typevar' else x.kind.split(':')[0])
            elif isinstance(x, AnnotatedH):
                f.add('annotated')
            elif isinstance(x, LiteralH):
                f.add('literal')
            elif isinstance(x, TypeH):
                f.add('type')
            elif isinstance(x, ShallowH):
                f.add('shallow-' + x.form)
            elif isinstance(x, QuasiH):
                f.add('quasi-' + x.origin)
    # one dominant mechanism per witness, by priority (see DESIGN §4 C19)
    if 'shallow-CallableEllipsis' in f:
        f.add('shallow-Callable')
    # a union that has a member of the dominant kind (or a TypeVar bounded by a union) is part of the mechanism of the
    # known branch-by-branch findings: keep it in the key, so that a defect in the plain comparison of the same kind of
    # hint is not filed under them
    in_union = set()
    for nd in nodes:
        for x in nd.walk():
            if isinstance(x, hints.UnionH):
                for m in x.members:
                    if isinstance(m, AnnotatedH):
                        in_union.add('annotated')
                    elif isinstance(m, LiteralH):
                        in_union.add('literal')
                    elif isinstance(m, hints.NamedH) and m.kind.split(':')[0] == 'typevar':
                        in_union.add('typevar')
            elif isinstance(x, AnnotatedH) and any(isinstance(y, hints.UnionH) for y in x.walk()):
                in_union.add('annotated')
            elif isinstance(x, hints.NamedH) and x.kind.split(':')[0] == 'typevar' and isinstance(x.under, hints.UnionH):
                in_union.add('typevar')
    for p in ('abc-subclasshook', 'shallow-Callable', 'typevar', 'newtype', 'annotated', 'literal',
              'generic-nested-typevar', 'generic', 'protocol', 'pep695', 'type'):
        if p in f:
            return [p + ('-with-union' if p in in_union else '')]
    return sorted(f)[:1] or ['plain']


def small_subnodes(node, cap=10):
    subs = sorted({n.src: n for n in node.walk()}.values(), key=lambda n: len(n.src))
    return subs[:cap] + ([node] if node not in subs[:cap] else [])


def main():
    W = Worker('C19', RULE, assumptions=[
        'a pair for which is_subhint raises a public beartype exception is simply not in the relation (totality is not promised)',
        'soundness witnesses need two accusers: the reference model full(x, B) is False AND is_bearable(x, B) is False under some draw',
        'completeness (missed subhint relations) is not a property'])
    quick = W.quick
    pool_size = 14 if quick else 40
    limit = 100000 if quick else 5000000

    def rel(a, b):
        try:
            v = is_subhint(a.hint(), b.hint())
            return bool(v)
        except BeartypeException:
            W.count('is_subhint_raised_public_exception')
            return None
        except Exception as e:   # noqa
            W.count('is_subhint_raised_other')     # exception hygiene is C11's
            return None

    for idx in W.cases('pool', limit, frac=.9):        # (the homonym stream below gets the rest)
        rng = W.rng('pool', idx)
        try:
            seed = hints.safe_gen_hint(rng, rng.choice((1, 2, 2, 3)), allow_any=False)
        except hints.CantGen:
            continue
        pool, srcs = [], set()

        def add(n):
            try:
                n.hint()
            except Exception:
                return
            if n.src not in srcs and not has_any(n) and n.all_deciding():
                srcs.add(n.src)
                pool.append(n)
        add(seed)
        tries = 0
        while len(pool) < pool_size and tries < pool_size * 6:
            tries += 1
            base = rng.choice(pool) if pool else seed
            add(vary(rng, base))
        if len(pool) < 3:
            continue
        W.count('pools')
        n = len(pool)
        # ---- relation matrix + reflexivity --------------------------------------------
        R = [[None] * n for _ in range(n)]
        for i in range(n):
            for j in range(n):
                R[i][j] = rel(pool[i], pool[j])
                W.count('is_subhint_calls')
            W.evaluate(('refl', pool[i].src) if pool[i].depth() > 1 else None)
            if R[i][i] is False:
                W.violation('not-reflexive:' + pool[i].kind.split(':')[0],
                            f'is_subhint(A, A) is False for A = {pool[i].src}', 'pool', idx, dict(hint=pool[i].src))
        related = sum(1 for i in range(n) for j in range(n) if i != j and R[i][j])
        W.count('related_pairs', related)
        # ---- transitivity ---------------------------------------------------------------
        done = False
        for i in range(n):
            if done:
                break
            for j in range(n):
                if done or i == j or not R[i][j]:
                    continue
                for k in range(n):
                    if k in (i, j) or not R[j][k]:
                        continue
                    W.count('triples_checked')
                    W.evaluate(('trans', pool[i].src, pool[j].src, pool[k].src))
                    if R[i][k] is False:
                        a, b, c = pool[i], pool[j], pool[k]
                        # minimise over sub-hints, then name the mechanism by the features of the smallest triple
                        best = (a, b, c)
                        size = lambda t: sum(len(h_.src) for h_ in t)
                        for a2 in small_subnodes(a, 6):
                            for b2 in small_subnodes(b, 6):
                                if rel(a2, b2) is not True:
                                    continue
                                for c2 in small_subnodes(c, 6):
                                    if size((a2, b2, c2)) < size(best) and not has_any(a2) and not has_any(b2) \
                                            and not has_any(c2) and rel(b2, c2) is True and rel(a2, c2) is False:
                                        best = (a2, b2, c2)
                        # abstraction: replace sub-hints that do not matter by a plain class
                        for _round in range(2):
                            cands = sorted({s_.src: s_ for h_ in best for s_ in h_.walk()
                                            if s_.src not in {h2.src for h2 in best}}.values(),
                                           key=lambda s_: -len(s_.src))
                            for s_ in cands[:24]:
                                if isinstance(s_, Cls) and s_.name == 'D':
                                    continue
                                try:
                                    t2 = tuple(hints.rebuild(h_, lambda n_, _s=s_.src: Cls('D') if n_.src == _s else None) for h_ in best)
                                    for h_ in t2:
                                        h_.hint()
                                except Exception:
                                    continue
                                if any(has_any(h_) for h_ in t2):
                                    continue
                                if rel(t2[0], t2[1]) is True and rel(t2[1], t2[2]) is True and rel(t2[0], t2[2]) is False:
                                    best = t2
                        a, b, c = best
                        key = '+'.join('not-transitive:' + f for f in features(a, b, c))
                        W.violation(key, f'A <= B and B <= C but not A <= C: A={a.src}  B={b.src}  C={c.src}', 'pool', idx,
                                    dict(A=a.src, B=b.src, C=c.src))
                        done = True
                        break
        # ---- soundness ------------------------------------------------------------------
        for i in range(n):
            objs = []
            for _ in range(4 if quick else 10):
                try:
                    x = pool[i].gen_in(rng)
                    if pool[i].full(x):
                        objs.append(x)
                except hints.CantGen:
                    break
                except Exception:
                    pass
            if not objs:
                continue
            for j in range(n):
                if i == j or not R[i][j]:
                    continue
                for x in objs:
                    W.count('soundness_witnesses_tried')
                    try:
                        model_ok = pool[j].full(x)
                    except Exception:
                        continue
                    if model_ok:
                        continue
                    bt_reject = False
                    for r in draws.draw_set(rng, hints.seq_lens(x), cap=6, extra_random=1):
                        with draws.armed(r):
                            try:
                                if is_bearable(x, pool[j].hint()) is False:
                                    bt_reject = True
                                    break
                            except Exception:
                                break
                    if bt_reject:
                        a, b = pool[i], pool[j]
                        # minimise: smallest related sub-hint pair that still has a two-accuser witness
                        best, bx = (a, b), x
                        for a2 in small_subnodes(a, 8):
                            for b2 in small_subnodes(b, 8):
                                if len(a2.src) + len(b2.src) >= len(best[0].src) + len(best[1].src):
                                    continue
                                if has_any(a2) or has_any(b2) or rel(a2, b2) is not True:
                                    continue
                                for _ in range(25):
                                    try:
                                        y = a2.gen_in(rng)
                                        if a2.full(y) and not b2.full(y) and is_bearable(y, b2.hint()) is False:
                                            best, bx = (a2, b2), y
                                            break
                                    except Exception:
                                        break
                        (a, b), x = best, bx
                        key = '+'.join('unsound:' + f for f in features(a, b))
                        W.violation(key, f'is_subhint(A, B) holds, {short(x, 80)} fully satisfies A but B rejects it '
                                         f'(model and is_bearable agree): A={a.src}  B={b.src}', 'pool', idx,
                                    dict(A=a.src, B=b.src, obj=short(x, 300)))
                        break
        # ---- TypeHint coherence ------------------------------------------------------------
        ths = []
        for node in pool:
            h = node.hint()
            try:
                th = TypeHint(h)
            except BeartypeException:
                ths.append(None)
                continue
            ths.append(th)
            W.count('typehints_built')
            try:
                hashable = True
                hash(h)
            except Exception:
                hashable = False
            if hashable and TypeHint(h) is not th:
                W.violation('typehint-not-memoised', f'TypeHint(h) is not TypeHint(h) for {node.src}', 'pool', idx, dict(hint=node.src))
            try:
                kids = list(th)
                problems = []
                if len(th) != len(kids):
                    problems.append(f'len={len(th)} but iteration yields {len(kids)}')
                for q, c in enumerate(kids):
                    if th[q] != c:
                        problems.append(f'th[{q}] != iteration item {q}')
                    if th[q - len(kids)] != c:
                        problems.append(f'th[{q - len(kids)}] != iteration item {q}')
                    if c not in th:
                        problems.append(f'child {q} not "in" the wrapper')
                if kids and tuple(th[0:len(kids)]) != tuple(kids):
                    problems.append('full slice differs from iteration')
                if kids and tuple(th[1:]) != tuple(kids[1:]):
                    problems.append('th[1:] differs from iteration[1:]')
                if bool(th) != bool(kids):
                    problems.append('truthiness differs from having children')
                try:
                    th[len(kids)]
                    problems.append('indexing past the end does not raise')
                except IndexError:
                    pass
                except BeartypeException:
                    pass
                # args describe the same children when every arg is itself a hint of a plain subscripted form
                if isinstance(node, (SeqH, ReitH, QuasiH, MapH, TupleFixedH, UnionH)) and node.kind != 'map:Counter' \
                        and not (isinstance(node, UnionH) and len(node.members) < 2):     # Union[X] is X
                    args = [a for a in th.args if a is not Ellipsis]
                    if len(args) != len(kids):
                        problems.append(f'args has {len(args)} hints, iteration {len(kids)}')
                    else:
                        for a, c in zip(args, kids):
                            try:
                                if TypeHint(a) != c:
                                    problems.append(f'TypeHint(args item) != child for {a!r}')
                            except BeartypeException:
                                pass
                W.count('container_protocol_checks')
                if problems:
                    W.violation('typehint-children-incoherent:' + node.kind.split(':')[0],
                                f'{node.src}: ' + '; '.join(problems[:3]), 'pool', idx, dict(hint=node.src, problems=problems[:6]))
            except Exception:
                W.count('wrapper_protocol_raised')      # exception hygiene is C11's business
        for i in range(n):
            for j in range(i + 1, n):
                a, b = ths[i], ths[j]
                if a is None or b is None:
                    continue
                W.count('wrapper_pairs_compared')
                try:
                    eq = (a == b)
                except Exception:
                    W.count('wrapper_eq_raised')
                    continue
                if eq:
                    W.count('equal_wrapper_pairs')
                    if hash(a) != hash(b):
                        W.violation('eq-without-equal-hash', f'TypeHint wrappers compare equal with different hashes: {pool[i].src} == {pool[j].src}',
                                    'pool', idx, dict(A=pool[i].src, B=pool[j].src))
                    if R[i][j] is False or R[j][i] is False:
                        W.violation('eq-without-mutual-subhint', f'equal wrappers are not mutual subhints: {pool[i].src} == {pool[j].src}',
                                    'pool', idx, dict(A=pool[i].src, B=pool[j].src))
        if len(W.samples) < 3:
            W.sample(dict(pool=[p.src for p in pool[:8]], related_pairs=related))

    # ---- homonyms: distinct hints that print alike ---------------------------------------------------------
    # (same-named TypeVars with different bounds, same-named NewTypes over different bases, typing generics over
    # same-named classes of a class factory): the relation must follow the meaning, not the spelling, whatever the order
    # in which the hints were first seen.  Reference meaning = a predicate per hint; objects from a fixed zoo.
    import typing as _t
    for idx in W.cases('homonym', 400 if quick else 4000):
        rng = W.rng('homonym', idx)
        R1, R2 = type('Rec', (), {}), type('Rec', (), {})
        TVI, TVS = _t.TypeVar('T', bound=int), _t.TypeVar('T', bound=str)
        NTI, NTS = _t.NewType('N', int), _t.NewType('N', str)
        inst = lambda c: (lambda x: isinstance(x, c))                          # noqa: E731
        lst = lambda c: (lambda x: isinstance(x, list) and all(isinstance(i, c) for i in x))   # noqa: E731
        zoo = [0, 1, True, 'a', '', R1(), R2(), [0], ['a'], [R1()], [R2()], [], None, 1.5]
        model = [('TVI', TVI, inst(int)), ('TVS', TVS, inst(str)), ('NTI', NTI, inst(int)), ('NTS', NTS, inst(str)),
                 ('List[R1]', _t.List[R1], lst(R1)), ('List[R2]', _t.List[R2], lst(R2)), ('List[TVI]', _t.List[TVI], lst(int)),
                 ('List[TVS]', _t.List[TVS], lst(str)), ('Optional[R1]', _t.Optional[R1], lambda x: x is None or isinstance(x, R1)),
                 ('Optional[R2]', _t.Optional[R2], lambda x: x is None or isinstance(x, R2)), ('R1', R1, inst(R1)), ('R2', R2, inst(R2)),
                 ('int', int, inst(int)), ('str', str, inst(str)), ('bool', bool, inst(bool)), ('object', object, inst(object)),
                 ('List[int]', _t.List[int], lst(int)), ('List[str]', _t.List[str], lst(str))]
        rng.shuffle(model)                  # the order of first sight varies
        model = model[:rng.choice((6, 10, len(model)))]
        W.count('homonym_pools')
        W.evaluate(('homonym', tuple(n for n, _, _ in model)))
        rels = {}
        for na, ha, pa in model:
            for nb, hb, pb in model:
                try:
                    rels[na, nb] = bool(is_subhint(ha, hb))
                except Exception:
                    rels[na, nb] = None
                W.count('homonym_is_subhint_calls')
        bad = None
        for na, ha, pa in model:
            if rels[na, na] is False:
                bad = ('homonym:not-reflexive', f'is_subhint({na}, {na}) is False')
            try:
                if TypeHint(ha).hint != ha:        # (an equal hint seen earlier may legitimately share the wrapper)
                    bad = ('homonym:wrapper-of-another-hint', f'TypeHint({na}).hint is {TypeHint(ha).hint!r}, an unequal hint that prints alike')
            except Exception:
                pass
            for nb, hb, pb in model:
                if rels[na, nb]:
                    for x in zoo:
                        if pa(x) and not pb(x) and is_bearable(x, ha) is True and is_bearable(x, hb) is False:
                            bad = bad or ('homonym:unsound', f'is_subhint({na}, {nb}) is True, yet {x!r} satisfies {na} and not {nb} '
                                                             f'(reference predicate and is_bearable agree); first sight order: '
                                                             f'{[n for n, _, _ in model]}')
                    for nc, hc, pc in model:
                        if rels[nb, nc] and rels[na, nc] is False:
                            bad = bad or ('homonym:not-transitive', f'{na} <= {nb} <= {nc} but not {na} <= {nc}')
        if bad:
            W.violation(bad[0], bad[1], 'homonym', idx, dict(order=[n for n, _, _ in model]))

    W.need('homonym_pools', 20)
    W.need('pools', 100)
    W.need('is_subhint_calls', 10000)
    W.need('related_pairs', 1000)
    W.need('triples_checked', 500)
    W.need('soundness_witnesses_tried', 500)
    W.need('container_protocol_checks', 500)
    W.need('wrapper_pairs_compared', 2000)
    W.finish()


guarded(main)

"""C06 - hook scoping follows the nearest registered package after any hook
history (lock-step history monitor against a declarative model; mismatches are
classified by explanatory relaxed models).  DESIGN §4 C06."""
import atexit
import importlib
import itertools
import os
import shutil
import sys
import tempfile

sys.path.insert(0, os.path.dirname(os.path.dirname(os.path.abspath(__file__))))
from vlib.worker import Worker, guarded, short, use_repo

use_repo()
import beartype   # noqa: E402
from beartype import BeartypeConf, BeartypeStrategy   # noqa: E402
from beartype.claw import (beartype_all, beartype_package, beartype_packages, beartype_this_package, beartyping)  # noqa: E402
from beartype.roar import BeartypeClawDecorWarning, BeartypeClawHookException   # noqa: E402
from beartype.claw._package.clawpkgtrie import get_package_conf_or_none   # noqa: E402  (the answer the loader consumes)

RULE = ('histories of 1-12 operations over beartype_all / beartype_package / beartype_packages (1-3 names, the '
        'conflicting one at every position) / beartype_this_package (called from generated module namespaces) / '
        'nested and interleaved beartyping() blocks (also left by exception), with skip lists, 4 configurations, '
        'names from a small dotted alphabet; after every operation the registry answer for every registered name, '
        'its ancestors, children, siblings and look-alikes, and the presence of the path hook, are compared with a '
        'declarative model; histories also (re-)import real modules living under those names at random points: the '
        'module must have been compiled and be checked at run time under the configuration of its nearest registered '
        'ancestor at that moment (the per-module configuration the injected code looks up), or be left alone when none '
        'applies; distinct by the operation sequence; non-trivial = at least 2 operations')

NAMES = ['a', 'b', 'ab', 'a.b', 'a.bc', 'a.b.c', 'a.b.c.d', 'b.a', 'c', 'c.a.b', 'ab.a']
QUERY_EXTRA = ['a.c', 'a.b.d', 'abc', 'a.bcd', 'b.ab', 'zz', 'zz.a', 'beartype', 'beartype.door', 'a.b.c.d.e', 'c.a', 'ab.a.b']


class MyWarn(UserWarning):
    pass


def confs():
    """Symbolic configurations: name -> kwargs (skip names added per operation)."""
    return {
        'D': {},
        'P': dict(is_pep484_tower=True),
        'S': dict(strategy=BeartypeStrategy.On),
        'W': dict(warning_cls_on_decorator_exception=MyWarn),
        # an explicit None is a choice too ("raise decoration errors"), not the same as leaving the option out
        'N': dict(warning_cls_on_decorator_exception=None),
        # "do not check this subtree" is a registration like any other: it shadows what an ancestor registered
        'O': dict(strategy=BeartypeStrategy.O0),
    }


def build_conf(cname, skips):
    kw = dict(confs()[cname])
    if skips:
        kw['claw_skip_package_names'] = tuple(skips)
    return BeartypeConf(**kw)


def hookable(cname, skips):
    """The configuration the hook documents it applies: the caller's, with decorator
    exceptions reduced to BeartypeClawDecorWarning unless the caller chose a class."""
    kw = dict(confs()[cname])
    if skips:
        kw['claw_skip_package_names'] = tuple(skips)
    kw.setdefault('warning_cls_on_decorator_exception', BeartypeClawDecorWarning)
    return BeartypeConf(**kw)


# ---- real packages under the names of the alphabet (for the import operation) ----------------------------------
REAL = {'root': None}
LEAF_SRC = 'def f(x: float) -> float:\n    return x\n'
IMPORT_TARGETS = ('a.b', 'a.b', 'a', 'a.b.c', 'c.a.b', 'b', 'ab')
LAST_IMPORT = {}


def ensure_real_packages():
    if REAL['root'] is None:
        root = REAL['root'] = tempfile.mkdtemp(prefix='vc06_')
        atexit.register(shutil.rmtree, root, True)
        for n in NAMES:
            for pre in prefixes(n):
                d = os.path.join(root, *pre.split('.'))
                os.makedirs(d, exist_ok=True)
                for fn, text in (('__init__.py', ''), ('leaf.py', LEAF_SRC)):
                    if not os.path.exists(os.path.join(d, fn)):
                        with open(os.path.join(d, fn), 'w') as f:
                            f.write(text)
        sys.path.insert(0, root)
        sys.dont_write_bytecode = True
        importlib.invalidate_caches()


def import_leaf(pkg):
    """(Re-)import pkg.leaf from scratch; record what an observer of the imported module sees."""
    from beartype.claw._clawstate import claw_state
    ensure_real_packages()
    tops = {n.split('.')[0] for n in NAMES}
    for k in [k for k in sys.modules if k.split('.')[0] in tops]:
        del sys.modules[k]
    # (sys.path_importer_cache is deliberately left alone: dropping stale finders when the path hook comes or goes is
    # beartype's job - a harness that clears the cache itself hides a hook that forgets to, S7-C06)
    name = pkg + '.leaf'
    mod = importlib.import_module(name)
    LAST_IMPORT.clear()
    LAST_IMPORT.update(name=name, wrapped=hasattr(mod.f, '__wrapped__'),
                       conf=claw_state.module_name_to_beartype_conf.get(name))


BUILTIN_EXCLUDED = None


def builtin_excluded():
    global BUILTIN_EXCLUDED
    if BUILTIN_EXCLUDED is None:
        from beartype._data.shame.module.datashamemod import BLACKLIST_PACKAGE_NAMES
        BUILTIN_EXCLUDED = set(BLACKLIST_PACKAGE_NAMES) | {'beartype'}
    return BUILTIN_EXCLUDED


def prefixes(name):
    parts = name.split('.')
    return ['.'.join(parts[:i]) for i in range(1, len(parts) + 1)]


class Model:
    """Declarative registry model.  `relax` is a set of named relaxations used
    only to *explain* a mismatch, never to accept one."""

    def __init__(self, relax=()):
        self.reg, self.all, self.skips, self.stack = {}, None, set(), []
        self.relax = set(relax)

    def copy_state(self):
        return (dict(self.reg), self.all, set(self.skips))

    def conf(self, name):
        pre = prefixes(name)
        if any(p in self.skips or p in builtin_excluded() for p in pre):
            return None
        best = self.all
        for p in pre:
            if p in self.reg:
                best = self.reg[p]
        return best

    def hook_present(self):
        return bool(self.reg) or self.all is not None

    # operations return True when the model expects BeartypeClawHookException
    def register(self, names, ckey, skips, is_all=False):
        c = (ckey, tuple(skips))
        if 'effects-before-conflict' in self.relax:
            self.skips |= set(skips)
            if is_all:
                if self.all is None:
                    self.all = c
                elif self.all != c:
                    return True
                return False
            for n in names:
                if n not in self.reg:
                    self.reg[n] = c
                elif self.reg[n] != c:
                    return True
            return False
        if is_all:
            if self.all is not None and self.all != c:
                return True
            self.all = c
        else:
            if any(n in self.reg and self.reg[n] != c for n in names):
                return True
            for n in names:
                self.reg[n] = c
        self.skips |= set(skips)
        return False

    def enter(self, ckey, skips):
        self.stack.append(self.copy_state())
        self.all = (ckey, tuple(skips))
        self.skips |= set(skips)

    def exit(self):
        reg, all_, skips = self.stack.pop()
        if 'exit-restores-nothing' in self.relax:
            return
        if 'exit-keeps-inner-registrations' in self.relax:
            reg = dict(reg, **{k: v for k, v in self.reg.items() if k not in reg})
        if 'exit-keeps-skip-names' in self.relax:
            skips = set(self.skips)
        self.reg, self.all, self.skips = reg, all_, skips


RELAXATIONS = ['exit-restores-nothing', 'exit-keeps-skip-names', 'exit-keeps-inner-registrations', 'effects-before-conflict']


def gen_history(rng, quick):
    n = rng.choice((1, 2, 3, 4, 5, 6, 8, 10, 12)) if not quick else rng.choice((1, 2, 3, 4, 5, 6, 8))
    ops, depth = [], 0
    for _ in range(n):
        r = rng.random()
        ckey = rng.choice(list(confs()))
        skips = tuple(sorted(rng.sample(NAMES, rng.choice((1, 1, 2))))) if rng.random() < .25 else ()
        if r < .12:
            ops.append(('all', ckey, skips))
        elif r < .40:
            ops.append(('package', rng.choice(NAMES), ckey, skips))
        elif r < .58:
            k = rng.choice((1, 2, 2, 3))
            ops.append(('packages', tuple(rng.sample(NAMES, k)), ckey, skips))
        elif r < .68:
            ops.append(('this_package', rng.choice(NAMES), ckey, skips))
        elif r < .80 and depth < 3:
            ops.append(('enter', ckey, skips))
            depth += 1
        elif r < .90:
            ops.append(('import', rng.choice(IMPORT_TARGETS)))
        elif depth > 0:
            ops.append(('exit', rng.random() < .3))     # True = left by an exception
            depth -= 1
        else:
            ops.append(('package', rng.choice(NAMES), ckey, skips))
    while depth > 0:
        ops.append(('exit', False))
        depth -= 1
    return ops


def op_repr(op):
    return op[0] + '(' + ', '.join(map(str, op[1:])) + ')'


def beartype_hook_present():
    for h in sys.path_hooks:
        mod = getattr(h, '__module__', '') or ''
        if mod.startswith('beartype'):
            return True
        # FileFinder.path_hook(...) closure over beartype's loader class
        for cell in getattr(h, '__closure__', None) or ():
            try:
                if 'beartype' in repr(cell.cell_contents):
                    return True
            except ValueError:
                pass
    return False


def call_this_package(pkg, conf):
    ns = {'__name__': pkg + '.mod', '__package__': pkg, 'beartype_this_package': beartype_this_package}
    exec('def call(conf):\n    beartype_this_package(conf=conf)\n', ns)
    ns['call'](conf)


class Boom(Exception):
    pass


def apply_real(op, ctxs):
    """Apply op to beartype; returns 'ok' | 'hook-exception' | ('error', exc)."""
    try:
        kind = op[0]
        if kind == 'all':
            beartype_all(conf=build_conf(op[1], op[2]))
        elif kind == 'package':
            beartype_package(op[1], conf=build_conf(op[2], op[3]))
        elif kind == 'packages':
            beartype_packages(op[1], conf=build_conf(op[2], op[3]))
        elif kind == 'this_package':
            call_this_package(op[1], build_conf(op[2], op[3]))
        elif kind == 'import':
            import_leaf(op[1])
        elif kind == 'enter':
            cm = beartyping(conf=build_conf(op[1], op[2]))
            cm.__enter__()
            ctxs.append(cm)
        elif kind == 'exit':
            cm = ctxs.pop()
            if op[1]:
                try:
                    cm.__exit__(Boom, Boom('left by exception'), None)
                except Boom:
                    pass
            else:
                cm.__exit__(None, None, None)
        return 'ok'
    except BeartypeClawHookException:
        return 'hook-exception'
    except Exception as e:   # noqa
        return ('error', e)


def apply_model(m, op):
    kind = op[0]
    if kind == 'all':
        return m.register((), op[1], op[2], is_all=True)
    if kind == 'package':
        return m.register((op[1],), op[2], op[3])
    if kind == 'packages':
        return m.register(op[1], op[2], op[3])
    if kind == 'this_package':
        return m.register((op[1],), op[2], op[3])
    if kind == 'import':
        return False
    if kind == 'enter':
        m.enter(op[1], op[2])
        return False
    if kind == 'exit':
        m.exit()
        return False


def query_names(ops):
    qs = set(QUERY_EXTRA)
    for op in ops:
        for a in op[1:]:
            for n in (a if isinstance(a, tuple) else (a,)):
                if isinstance(n, str) and n in NAMES:
                    qs.add(n)
                    qs.update(prefixes(n))
                    qs.add(n + '.x')
                    qs.add(n + 'x')
    return sorted(qs)


def observe(qs):
    out = {}
    for q in qs:
        c = get_package_conf_or_none(q)
        out[q] = c
    return out, beartype_hook_present()


def expected(m, qs):
    out = {}
    for q in qs:
        c = m.conf(q)
        out[q] = None if c is None else hookable(c[0], c[1])
    return out, m.hook_present()


def run_history(ops, relax=()):
    """Lock-step run; returns None or (step, description) of the first mismatch."""
    from beartype.claw._clawstate import claw_state
    claw_state.reinit()
    qs = query_names(ops)
    got, hook = observe(qs)
    if any(v is not None for v in got.values()) or hook:
        return (-1, 'reinit() did not produce the pristine state', 'harness')
    m = Model(relax)
    ctxs = []
    try:
        for i, op in enumerate(ops):
            exp_raise = apply_model(m, op)
            res = apply_real(op, ctxs)
            if isinstance(res, tuple):
                return (i, f'{op_repr(op)} raised {type(res[1]).__name__}: {short(res[1], 200)}', 'error:' + type(res[1]).__name__)
            if exp_raise != (res == 'hook-exception'):
                return (i, f'{op_repr(op)}: ' + ('expected BeartypeClawHookException (conflicting configuration), none raised'
                                                 if exp_raise else 'raised BeartypeClawHookException although nothing conflicts'), 'conflict')
            if op[0] == 'import':
                c = m.conf(LAST_IMPORT['name'])
                want = None if c is None else hookable(c[0], c[1])
                checks = want is not None and want.strategy is not BeartypeStrategy.O0
                if want is None and LAST_IMPORT['wrapped']:
                    return (i, f'after {op_repr(op)}: {LAST_IMPORT["name"]} was transformed although no registration applies to it', 'import')
                if want is not None and LAST_IMPORT['conf'] is not want and LAST_IMPORT['conf'] != want:
                    return (i, f'after {op_repr(op)}: {LAST_IMPORT["name"]} runs under {short(LAST_IMPORT["conf"], 90)} but its nearest '
                               f'registered ancestor says {short(want, 90)}', 'import')
                if checks and not LAST_IMPORT['wrapped']:
                    return (i, f'after {op_repr(op)}: {LAST_IMPORT["name"]} was not transformed although {short(want, 90)} applies', 'import')
            got, hook = observe(qs)
            exp, ehook = expected(m, qs)
            bad = [q for q in qs if got[q] is not exp[q] and got[q] != exp[q]]
            if bad:
                q = bad[0]
                return (i, f'after {op_repr(op)}: module {q!r} is answered {short(got[q], 90)} but the rule gives {short(exp[q], 90)}'
                           f' ({len(bad)} of {len(qs)} queried names differ)', 'answer')
            if hook != ehook:
                return (i, f'after {op_repr(op)}: path hook present={hook} but "something is registered"={ehook}', 'path-hook')
    finally:
        while ctxs:
            try:
                ctxs.pop().__exit__(None, None, None)
            except Exception:
                pass
        claw_state.reinit()
    return None


def classify(ops):
    """Smallest set of relaxations under which the model reproduces beartype."""
    for k in range(1, len(RELAXATIONS) + 1):
        for combo in itertools.combinations(RELAXATIONS, k):
            if run_history(ops, combo) is None:
                return '+'.join(combo)
    return None


def minimise(ops):
    """Drop operations while the strict model still mismatches."""
    cur = list(ops)
    changed = True
    while changed and len(cur) > 1:
        changed = False
        for i in range(len(cur)):
            cand = cur[:i] + cur[i + 1:]
            # keep enter/exit balanced
            d, ok = 0, True
            for o in cand:
                d += 1 if o[0] == 'enter' else -1 if o[0] == 'exit' else 0
                if d < 0:
                    ok = False
            if not ok or d != 0:
                continue
            if run_history(cand) is not None:
                cur, changed = cand, True
                break
    return cur


def main():
    W = Worker('C06', RULE, assumptions=[
        'the observable is the registry answer the import hook consumes (get_package_conf_or_none) and sys.path_hooks',
        'configurations are compared modulo the documented hook adjustment (decorator exceptions become '
        'BeartypeClawDecorWarning unless the caller chose a class); configurations differing only in '
        'claw_skip_package_names are different configurations',
        'state is reset between histories with claw_state.reinit(), probed to be pristine'])
    quick = W.quick
    limit = 300000 if quick else 20000000

    directed = [
        [('enter', 'D', ()), ('exit', False)],
        [('enter', 'P', ()), ('exit', True)],
        [('all', 'D', ()), ('enter', 'P', ()), ('exit', False)],
        [('package', 'a', 'D', ()), ('enter', 'D', ()), ('exit', False)],
        [('enter', 'D', ('a',)), ('exit', False), ('package', 'a', 'D', ())],
        [('package', 'a', 'D', ()), ('packages', ('b', 'a'), 'P', ())],
        [('package', 'b', 'D', ()), ('packages', ('a', 'b'), 'P', ())],
        [('package', 'a', 'D', ()), ('package', 'c', 'P', ('b',))],
        [('package', 'a', 'D', ()), ('package', 'a', 'P', ('b',)), ('package', 'b', 'D', ())],
        [('package', 'a', 'D', ()), ('package', 'a.b', 'P', ()), ('package', 'a.b.c', 'S', ())],
        [('package', 'a.b', 'P', ()), ('package', 'a', 'D', ())],
        [('all', 'D', ()), ('package', 'a', 'P', ('a.b',))],
        [('package', 'a', 'D', ()), ('package', 'a', 'D', ())],
        [('this_package', 'a.b', 'W', ()), ('package', 'a.b', 'W', ())],
        [('enter', 'D', ()), ('enter', 'P', ()), ('exit', False), ('exit', False)],
        [('enter', 'D', ()), ('package', 'a', 'P', ()), ('exit', False)],
        [('package', 'a', 'D', ('a.b',)), ('package', 'a.b', 'P', ('a',))],
    ]

    def decide(stream, idx, ops):
        W.count('histories')
        W.count('operations', len(ops))
        for o in ops:
            W.add('op_kinds', o[0])
        res = run_history(ops)
        if res is None:
            W.count('histories_matching_model')
            return
        step, what, kind = res
        if kind == 'harness':
            W.violation('harness-error', what, stream, idx, dict(history=[op_repr(o) for o in ops]))
            return
        small = minimise(ops)
        why = classify(small)
        key = why if why else f'unexplained:{kind}'
        res2 = run_history(small)
        W.violation(key, f'{res2[1] if res2 else what} | minimal history: {[op_repr(o) for o in small]}'
                         + (f' | explained by relaxing the rule: {why}' if why else ''),
                    stream, idx, dict(history=[op_repr(o) for o in ops], minimal=[op_repr(o) for o in small],
                                      explained_by=why, first_mismatch_step=step))

    if W.is_lead():
        for i, ops in enumerate(directed):
            W.evaluate(('d', i))
            decide('directed', i, ops)
            W.count('directed_histories')

    for idx in W.cases('hist', limit):
        rng = W.rng('hist', idx)
        ops = gen_history(rng, quick)
        W.evaluate(tuple(op_repr(o) for o in ops) if len(ops) >= 2 else None)
        if len(W.samples) < 3 and len(ops) >= 4:
            W.sample([op_repr(o) for o in ops])
        decide('hist', idx, ops)

    W.need('histories', 500)
    W.need('operations', 2000)
    W.need('histories_matching_model', 100)
    W.finish()


guarded(main)

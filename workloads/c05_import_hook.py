"""C05 - the import hook preserves program meaning and equals writing the checks
by hand (event-log programs; the compiled AST is captured at the real boundary
through the `compile` audit event and compared with the original AST and with
an independent restatement of the placement rule; three executions - unhooked,
hooked, by-hand - are compared on their evaluation traces).  DESIGN §4 C05."""
import ast
import importlib
import os
import shutil
import sys
import tempfile
import traceback
import types
import warnings

sys.path.insert(0, os.path.dirname(os.path.dirname(os.path.abspath(__file__))))
from vlib.worker import Worker, guarded, short, use_repo

use_repo()
import beartype   # noqa: E402
from beartype import BeartypeConf, BeartypeDecorPlace, BeartypeStrategy   # noqa: E402
from beartype.claw import beartype_package   # noqa: E402
from beartype.door import die_if_unbearable   # noqa: E402
from beartype.roar import (BeartypeCallHintViolation, BeartypeClawDecorWarning, BeartypeDoorHintViolation,
                           BeartypeHintViolation)   # noqa: E402

RULE = ('seeded module grammar (functions, async functions, classes with plain/static/class/property members and '
        'annotated fields, nested classes, closures, if/for/while/try/with/match blocks, user decorator stacks, '
        'the decorator-hostile third-party decorators of the default beforelist (stand-in celery / fastmcp / '
        'langchain_core packages bound in ten ways: direct call, alias, module attribute, annotated assignment from a '
        'factory, bare annotation then assignment, untracked control), docstrings, __future__ imports, annotated assignments to names / attributes / subscripts with and without '
        'value at module, function and class scope; every value, default and decorator expression wrapped in a tracing '
        'call) x hook configurations (claw_is_pep526, claw_decor_place_func/type, default vs non-default conf) x '
        'optional planted violation; distinct by (module source, configuration); non-trivial = the module has a class, '
        'a nested function or an annotated assignment')

TRACE_MOD = 'vc05trace'


def install_tracer():
    m = types.ModuleType(TRACE_MOD)
    src = '''
import functools
LOG = []
def T(tag, value=None):
    LOG.append(tag)
    return value
def deco(tag):
    LOG.append('mk:' + tag)
    def d(f):
        LOG.append('apply:' + tag)
        @functools.wraps(f)
        def w(*a, **k):
            return f(*a, **k)
        return w
    return d
class NS:
    pass
def make_app():
    import celery
    return celery.Celery()
def chain(f):
    LOG.append('plain:chain')
    return f
'''
    exec(src, m.__dict__)
    sys.modules[TRACE_MOD] = m
    return m


TR = install_tracer()

# stand-ins for the third-party packages of beartype's default decorator-position beforelist (the decorators are
# transparent: where @beartype lands relative to them is what is compared)
HOSTILE_PKGS = {
    'celery/__init__.py': ("from vc05trace import LOG\n"
                           "class Celery:\n"
                           "    def task(self, *a, **k):\n"
                           "        LOG.append('hostile:task')\n"
                           "        if len(a) == 1 and callable(a[0]) and not k:\n            return a[0]\n"
                           "        return lambda f: f\n"),
    'fastmcp/__init__.py': ("from vc05trace import LOG\n"
                            "class FastMCP:\n"
                            "    def tool(self, *a, **k):\n"
                            "        LOG.append('hostile:tool')\n"
                            "        if len(a) == 1 and callable(a[0]) and not k:\n            return a[0]\n"
                            "        return lambda f: f\n"),
    'langchain_core/__init__.py': "",
    'langchain_core/runnables.py': ("from vc05trace import LOG\n"
                                    "def chain(f):\n    LOG.append('hostile:chain')\n    return f\n"),
}
# (preamble lines, decorator source, is it on the beforelist as beartype tracks names?)
HOSTILE_FORMS = [
    (['from celery import Celery', 'app = Celery()'], 'app.task', True),
    (['from celery import Celery as CC', 'app2 = CC()'], 'app2.task', True),
    (['import celery', 'app3 = celery.Celery()'], 'app3.task', True),
    (['from celery import Celery', 'from vc05trace import make_app', 'app4: Celery = make_app()'], 'app4.task', True),
    (['from celery import Celery', 'from vc05trace import make_app', 'app5: Celery', 'app5 = make_app()'], 'app5.task', True),
    (['from fastmcp import FastMCP', 'mcp = FastMCP()'], 'mcp.tool', True),
    (['from langchain_core.runnables import chain'], 'chain', True),
    (['from langchain_core import runnables'], 'runnables.chain', True),
    (['import langchain_core.runnables'], 'langchain_core.runnables.chain', True),
    (['from vc05trace import make_app', 'app6 = make_app()'], 'app6.task', False),
    # untracked controls under the very names other modules of this process bind to beforelisted decorators (what one
    # hooked module imports must not colour the next one)
    (['from vc05trace import make_app', 'app = make_app()'], 'app.task', False),
    (['from vc05trace import chain'], 'chain', False),
    (['from vc05trace import make_app', 'mcp = make_app()'], 'mcp.task', False),
]


# ---------------------------------------------------------------------------------------
# module generator: builds source text; remembers the line of the planted violation
# ---------------------------------------------------------------------------------------
class Gen:
    def __init__(self, rng, plant):
        self.rng, self.lines, self.n = rng, [], 0
        self.plant = plant          # None | 'ann' | 'call'
        self.planted_line = None
        self.funcs = []             # (name, nparams) callable at module level
        self.features = set()
        self.hostile = []           # (decorator source, tracked by the beforelist?) usable at module level

    def tag(self, p='t'):
        self.n += 1
        return f'{p}{self.n}'

    def emit(self, ind, s):
        self.lines.append('    ' * ind + s)
        return len(self.lines)

    def val(self, typ='int', bad=False):
        t = self.tag('v')
        lit = {'int': '1', 'str': "'s'", 'float': '1.5', 'list[int]': '[1, 2]'}[typ]
        if bad:
            lit = {'int': "'notint'", 'str': '0', 'float': "'x'", 'list[int]': "['a']"}[typ]
        return f"T({t!r}, {lit})"

    def typ(self):
        return self.rng.choice(('int', 'str', 'float', 'list[int]', 'int'))

    def annassign(self, ind, scope, in_class):
        r, typ = self.rng.random(), self.typ()
        name = self.tag('x')
        self.features.add('annassign')
        if r < .55:
            ln = self.emit(ind, f'{name}: {typ} = {self.val(typ)}')
        elif r < .68:
            ln = self.emit(ind, f'{name}: {typ}')
        elif r < .76 and not in_class:
            self.emit(ind, f'{name} = NS()')
            ln = self.emit(ind, f'{name}.attr: {typ} = {self.val(typ)}')
            self.features.add('attr-target')
        elif r < .85 and not in_class:
            # attribute of something that is not a bare name: a.b.attr, xs[0].attr
            if self.rng.random() < .5:
                self.emit(ind, f'{name} = NS()')
                self.emit(ind, f'{name}.sub = NS()')
                ln = self.emit(ind, f'{name}.sub.attr: {typ} = {self.val(typ)}')
            else:
                self.emit(ind, f'{name} = NS()')
                self.emit(ind, f'{name}.items = [NS(), NS()]')
                ln = self.emit(ind, f'{name}.items[1].attr: {typ} = {self.val(typ)}')
            self.features.add('attr-target-of-non-name-owner')
        elif not in_class:
            self.emit(ind, f'{name} = {{}}')
            ln = self.emit(ind, f"{name}['k']: {typ} = {self.val(typ)}")
            self.features.add('subscript-target')
        else:
            ln = self.emit(ind, f'{name}: {typ} = {self.val(typ)}')
        return ln

    def funcdef(self, ind, depth, in_class=False, kind=None):
        name = self.tag('f')
        annotated = self.rng.random() < .8
        is_async = self.rng.random() < .15 and not in_class
        ndec = self.rng.choice((0, 0, 0, 1, 2))
        decs = [f"@deco({self.tag('d')!r})" for _ in range(ndec)]
        if self.hostile and ind == 0 and depth == 0 and not in_class and self.rng.random() < .6:
            # one or two third-party decorators of the beforelist: on top (their documented place), or below a
            # user decorator
            for _ in range(self.rng.choice((1, 1, 2))):
                hsrc, tracked = self.rng.choice(self.hostile)
                hdec = '@' + hsrc + self.rng.choice(('', '', "(name='n')" if not hsrc.endswith('chain') else ''))
                decs.insert(0 if self.rng.random() < .75 else self.rng.randint(0, len(decs)), hdec)
            self.features.add('decorator-hostile')
        for d_ in decs:
            self.emit(ind, d_)
        if ndec:
            self.features.add('decorator-stack')
        params = []
        if in_class and kind in (None, 'property'):
            params.append('self')
        elif kind == 'classmethod':
            params.append('cls')
        if kind == 'staticmethod':
            self.emit(ind, '@staticmethod')
        elif kind == 'classmethod':
            self.emit(ind, '@classmethod')
        elif kind == 'property':
            self.emit(ind, '@property')
        np = 0 if kind == 'property' else self.rng.choice((0, 1, 1, 2))
        typs = []
        for i in range(np):
            t = self.typ()
            typs.append(t)
            dflt = f' = {self.val(t)}' if self.rng.random() < .3 else ''
            params.append(f'a{i}: {t}{dflt}' if annotated else f'a{i}{dflt}')
        ret = ' -> int' if annotated and self.rng.random() < .6 else ''
        # where the annotations sit: ordinary parameters, positional-only ones only ("a0: int, /"), a variadic only
        style = self.rng.choice(('plain', 'plain', 'posonly', 'varargs')) if (np and not in_class) else 'plain'
        if style == 'posonly':
            params.append('/')
            if self.rng.random() < .5:
                ret = ''
            self.features.add('positional-only-parameters')
        elif style == 'varargs':
            t0 = typs[0]
            typs[:] = [t0] * len(typs)
            params[:] = [f'*va: {t0}' if annotated else '*va']
            if self.rng.random() < .5:
                ret = ''
            self.features.add('variadic-only-parameters')
        self.emit(ind, f"{'async ' if is_async else ''}def {name}({', '.join(params)}){ret}:")
        if self.rng.random() < .3:
            self.emit(ind + 1, "'''doc.'''")
        if ind == 0 and depth == 0 and not in_class and self.rng.random() < .2:
            # a beforelisted decorator bound INSIDE this function and used on functions nested one and two levels deeper
            # (every nested scope sees the names of the scopes around it)
            nm = self.tag('napp')
            self.emit(ind + 1, 'from celery import Celery')
            self.emit(ind + 1, f'{nm} = Celery()')
            self.hostile.append((f'{nm}.task', True))
            self.emit(ind + 1, f'@{nm}.task')
            self.emit(ind + 1, f'def {self.tag("nf")}(a0: int) -> int:')
            if self.rng.random() < .6:
                self.emit(ind + 2, f'@{nm}.task' + self.rng.choice(('', "(name='n')")))
                self.emit(ind + 2, f'def {self.tag("nf")}(a0: str) -> str:')
                self.emit(ind + 3, f"return {self.val('str')}")
            self.emit(ind + 2, f"return {self.val('int')}")
            self.features.add('decorator-hostile')
            self.features.add('decorator-hostile-bound-in-function')
        self.body(ind + 1, depth + 1, n=self.rng.choice((1, 2, 3)), in_func=True)
        self.emit(ind + 1, f"return {self.val('int')}")
        self.features.add('async-function' if is_async else 'function')
        if depth > 0 or in_class:
            self.features.add('nested-function' if not in_class else 'method')
        return name, typs, is_async, annotated

    def classdef(self, ind, depth):
        name = self.tag('C')
        if self.rng.random() < .25:
            self.emit(ind, f"@deco({self.tag('d')!r})")
        self.emit(ind, f'class {name}:')
        if self.rng.random() < .3:
            self.emit(ind + 1, "'''class doc.'''")
        n = self.rng.choice((1, 2, 3, 4))
        for _ in range(n):
            r = self.rng.random()
            if r < .2:
                self.annassign(ind + 1, 'class', True)
            elif r < .75:
                self.funcdef(ind + 1, depth + 1, in_class=True, kind=self.rng.choice((None, None, 'staticmethod', 'classmethod', 'property')))
            elif r < .9 and depth < 2:
                self.classdef(ind + 1, depth + 1)
                self.features.add('nested-class')
            else:
                self.emit(ind + 1, f"{self.tag('k')} = {self.val('int')}")
        self.emit(ind + 1, 'pass')
        self.features.add('class')
        return name

    def body(self, ind, depth, n, in_func=False):
        for _ in range(n):
            r = self.rng.random()
            if r < .28:
                ln = self.annassign(ind, 'func' if in_func else 'module', False)
            elif r < .42 and depth < 3:
                name, typs, is_async, annotated = self.funcdef(ind, depth)
                if not in_func and not is_async:
                    self.funcs.append((name, typs, annotated))
            elif r < .52 and depth < 2:
                self.classdef(ind, depth)
            elif r < .60:
                self.emit(ind, f"if {self.val('int')}:")
                self.body(ind + 1, depth + 1, 1, in_func)
                if self.rng.random() < .5:
                    self.emit(ind, 'else:')
                    self.body(ind + 1, depth + 1, 1, in_func)
                self.features.add('if')
            elif r < .66:
                self.emit(ind, f"for {self.tag('i')} in range(2):")
                self.body(ind + 1, depth + 1, 1, in_func)
                self.features.add('for')
            elif r < .72:
                self.emit(ind, 'try:')
                self.body(ind + 1, depth + 1, 1, in_func)
                self.emit(ind, 'except KeyError:')
                self.emit(ind + 1, 'pass')
                if self.rng.random() < .5:
                    self.emit(ind, 'finally:')
                    self.emit(ind + 1, f"T({self.tag('fin')!r})")
                self.features.add('try')
            elif r < .77:
                self.emit(ind, 'with contextlib.nullcontext():')
                self.body(ind + 1, depth + 1, 1, in_func)
                self.features.add('with')
            elif r < .82:
                self.emit(ind, f"match {self.val('int')}:")
                self.emit(ind + 1, 'case 1:')
                self.body(ind + 2, depth + 1, 1, in_func)
                self.emit(ind + 1, 'case _:')
                self.emit(ind + 2, 'pass')
                self.features.add('match')
            elif r < .9 and self.funcs and not in_func:
                name, typs, annotated = self.rng.choice(self.funcs)
                args = ', '.join(self.val(t) for t in typs)
                self.emit(ind, f'{self.tag("r")} = {name}({args})')
                self.features.add('call')
            else:
                self.emit(ind, f"{self.tag('y')} = {self.val('int')}")

    def module(self):
        if self.rng.random() < .5:
            self.emit(0, "'''Module docstring.'''")
            self.features.add('docstring')
        if self.rng.random() < .3:
            self.emit(0, 'from __future__ import annotations')
            self.features.add('future-annotations')
        self.emit(0, 'import contextlib')
        self.emit(0, f'from {TRACE_MOD} import T, deco, NS')
        if self.rng.random() < .4:
            for pre, hsrc, tracked in self.rng.sample(HOSTILE_FORMS, self.rng.choice((1, 1, 2))):
                if hsrc.split('.')[0] in {h.split('.')[0] for h, _ in self.hostile}:
                    continue            # (one binding per name and module)
                for l_ in pre:
                    if l_ not in self.lines:
                        self.emit(0, l_)
                self.hostile.append((hsrc, tracked))
        self.body(0, 0, n=self.rng.choice((3, 5, 8)))
        if self.plant == 'ann':
            typ = self.typ()
            self.planted_line = self.emit(0, f"{self.tag('bad')}: {typ} = {self.val(typ, bad=True)}")
        elif self.plant == 'call':
            cands = [(n, t) for n, t, a in self.funcs if a and t]
            if cands:
                name, typs = self.rng.choice(cands)
                args = ', '.join(self.val(t, bad=(i == 0)) for i, t in enumerate(typs))
                self.planted_line = self.emit(0, f'{self.tag("r")} = {name}({args})')
            else:
                self.plant = None
        self.emit(0, f"T('after-plant')")
        self.body(0, 0, n=2)
        return '\n'.join(self.lines) + '\n'


# ---------------------------------------------------------------------------------------
# my own restatement of the placement rule: by-hand rewriter
# ---------------------------------------------------------------------------------------
BT, DIE, IMP = '__bt_by_hand__', '__die_by_hand__', '@@IMPORT'


def is_typed(fn):
    a = fn.args
    allargs = list(a.posonlyargs) + list(a.args) + list(a.kwonlyargs) + ([a.vararg] if a.vararg else []) + ([a.kwarg] if a.kwarg else [])
    return fn.returns is not None or any(x.annotation is not None for x in allargs)


def place(decorators, marker, where, hostile=()):
    if where == 'FIRST':
        decorators.append(marker)       # applied first = written last
    elif where == 'LBDH':
        # last, but below the leading run of decorator-hostile decorators (those tolerate nothing above them)
        k = 0
        while k < len(decorators):
            d = decorators[k]
            if ast.unparse(d.func if isinstance(d, ast.Call) else d) not in hostile:
                break
            k += 1
        decorators.insert(k, marker)
    else:
        decorators.insert(0, marker)    # applied last = written first


class ByHand(ast.NodeTransformer):
    """Adds the decorators / calls the rule names.  `in_class` = directly in a class body."""

    def __init__(self, pep526, place_func, place_type, hostile=()):
        self.pep526, self.place_func, self.place_type = pep526, place_func, place_type
        self.hostile = set(hostile)
        self.stack = ['module']
        self.added = dict(decorators=0, calls=0)

    def marker(self, like):
        return ast.copy_location(ast.Name(id=BT, ctx=ast.Load()), like)

    def visit_block(self, stmts):
        out = []
        for s in stmts:
            r = self.visit(s)
            out.append(r)
            if (isinstance(s, ast.AnnAssign) and s.value is not None and self.pep526 and self.stack[-1] != 'class'
                    and isinstance(s.target, (ast.Name, ast.Attribute))):
                tgt = ast.parse(ast.unparse(s.target), mode='eval').body     # same expression, Load context
                call = ast.Expr(ast.Call(ast.Name(id=DIE, ctx=ast.Load()), [tgt, s.annotation], []))
                ast.copy_location(call, s)
                ast.fix_missing_locations(call)
                out.append(call)
                self.added['calls'] += 1
        return out

    def generic_visit(self, node):
        for field, old in ast.iter_fields(node):
            if isinstance(old, list) and old and isinstance(old[0], ast.stmt):
                setattr(node, field, self.visit_block(old))
            elif isinstance(old, list):
                setattr(node, field, [self.visit(x) if isinstance(x, ast.AST) else x for x in old])
            elif isinstance(old, ast.AST):
                setattr(node, field, self.visit(old))
        return node

    def _func(self, node):
        if self.stack[-1] != 'class' and is_typed(node):
            place(node.decorator_list, self.marker(node), self.place_func, self.hostile)
            self.added['decorators'] += 1
        self.stack.append('func')
        node.body = self.visit_block(node.body)
        self.stack.pop()
        return node

    visit_FunctionDef = _func
    visit_AsyncFunctionDef = _func

    def visit_ClassDef(self, node):
        place(node.decorator_list, self.marker(node), self.place_type, self.hostile)
        self.added['decorators'] += 1
        self.stack.append('class')
        node.body = self.visit_block(node.body)
        self.stack.pop()
        return node

    def visit_Lambda(self, node):
        return node


def by_hand_tree(src, pep526, place_func, place_type, hostile=()):
    tree = ast.parse(src)
    bh = ByHand(pep526, place_func, place_type, hostile)
    tree.body = bh.visit_block(tree.body)
    # one import after docstring and __future__ imports
    i = 0
    if tree.body and isinstance(tree.body[0], ast.Expr) and isinstance(getattr(tree.body[0], 'value', None), ast.Constant) \
            and isinstance(tree.body[0].value.value, str):
        i = 1
    while i < len(tree.body) and isinstance(tree.body[i], ast.ImportFrom) and tree.body[i].module == '__future__':
        i += 1
    imp = ast.ImportFrom(module=IMP, names=[ast.alias(name='*')], level=0)
    like = tree.body[i] if i < len(tree.body) else tree.body[-1]
    ast.copy_location(imp, like)
    tree.body.insert(i, imp)
    ast.fix_missing_locations(tree)
    return tree, bh.added


def normalise_hooked(tree):
    """Replace beartype's injected nodes by the same markers the by-hand rewriter uses.
    Returns (normalised tree, problems)."""
    problems = []

    def is_bt(d):
        f = d.func if isinstance(d, ast.Call) else d
        return isinstance(f, ast.Name) and f.id == '__beartype__'

    class N(ast.NodeTransformer):
        def _decos(self, node):
            node.decorator_list = [ast.copy_location(ast.Name(id=BT, ctx=ast.Load()), d) if is_bt(d) else d for d in node.decorator_list]
            self.generic_visit(node)
            return node
        visit_FunctionDef = visit_AsyncFunctionDef = visit_ClassDef = _decos

        def visit_Expr(self, node):
            v = node.value
            if isinstance(v, ast.Call) and isinstance(v.func, ast.Name) and v.func.id == '__die_if_unbearable_beartype__':
                if len(v.args) != 2:
                    problems.append('injected check call does not have exactly (target, hint) positional arguments')
                return ast.copy_location(ast.Expr(ast.Call(ast.Name(id=DIE, ctx=ast.Load()), v.args[:2], [])), node)
            return node

        def visit_ImportFrom(self, node):
            if node.module and node.module.startswith('beartype.claw'):
                return ast.copy_location(ast.ImportFrom(module=IMP, names=[ast.alias(name='*')], level=0), node)
            return node
    out = N().visit(tree)
    return out, problems


def strip_injected(tree):
    """The hooked tree minus every injected node (for the identity clause)."""
    class S(ast.NodeTransformer):
        def _decos(self, node):
            node.decorator_list = [d for d in node.decorator_list if not (isinstance(d, ast.Name) and d.id == BT)]
            self.generic_visit(node)
            return node
        visit_FunctionDef = visit_AsyncFunctionDef = visit_ClassDef = _decos

        def generic_visit(self, node):
            for field, old in ast.iter_fields(node):
                if isinstance(old, list):
                    new = []
                    for x in old:
                        if isinstance(x, ast.Expr) and isinstance(x.value, ast.Call) and isinstance(x.value.func, ast.Name) and x.value.func.id == DIE:
                            continue
                        if isinstance(x, ast.ImportFrom) and x.module == IMP:
                            continue
                        new.append(self.visit(x) if isinstance(x, ast.AST) else x)
                    setattr(node, field, new)
                elif isinstance(old, ast.AST):
                    setattr(node, field, self.visit(old))
            return node
    return S().visit(tree)


# ---------------------------------------------------------------------------------------
CAPTURED = {}


def audit(event, args):
    # CPython reports no filename for compile(<ast>, ...): the module-level ASTs compiled
    # during one import are collected and the (single) one of the hooked import is taken
    if event == 'compile' and args and isinstance(args[0], ast.Module):
        CAPTURED.setdefault('asts', []).append(args[0])


sys.addaudithook(audit)

CONFS = [
    ('default', {}),
    ('no526', dict(claw_is_pep526=False)),
    ('func-first', dict(claw_decor_place_func=BeartypeDecorPlace.FIRST)),
    ('func-last', dict(claw_decor_place_func=BeartypeDecorPlace.LAST)),
    ('type-first', dict(claw_decor_place_type=BeartypeDecorPlace.FIRST)),
    ('type-hostile', dict(claw_decor_place_type=BeartypeDecorPlace.LAST_BEFORE_DECOR_HOSTILE)),
    ('nonrandom', dict(is_random=False)),
    ('On-no526', dict(strategy=BeartypeStrategy.On, claw_is_pep526=False)),
    ('both-first', dict(claw_decor_place_func=BeartypeDecorPlace.FIRST, claw_decor_place_type=BeartypeDecorPlace.FIRST)),
]


def place_name(p):
    return 'FIRST' if p is BeartypeDecorPlace.FIRST else 'LBDH' if p is BeartypeDecorPlace.LAST_BEFORE_DECOR_HOSTILE else 'LAST'


def run_import(modname):
    """Import modname; returns (trace, exception or None, traceback line in the module file, module or None)."""
    TR.LOG.clear()
    exc, line, mod = None, None, None
    with warnings.catch_warnings(record=True) as wl:
        warnings.simplefilter('always')
        try:
            mod = importlib.import_module(modname)
        except BaseException as e:   # noqa
            exc = e
            for fr in traceback.extract_tb(e.__traceback__):
                if fr.filename.endswith(modname.split('.')[-1] + '.py'):
                    line = fr.lineno
    return list(TR.LOG), exc, line, mod, list(wl)


def main():
    W = Worker('C05', RULE, assumptions=[
        'annotation expressions are pure names (the hook necessarily evaluates the hint expression again in the added call)',
        'the third-party decorators of the default beforelist (celery.Celery.task, fastmcp.FastMCP.tool, langchain_core.runnables.chain) are transparent stand-ins; the by-hand rule knows which decorator expressions the generator bound to them',
        'the compiled AST is the object handed to compile(), captured by a sys.audit hook'])
    quick = W.quick
    limit = 100000 if quick else 5000000
    root = tempfile.mkdtemp(prefix='vc05_')
    sys.path.insert(0, root)
    for rel, text in HOSTILE_PKGS.items():
        os.makedirs(os.path.dirname(os.path.join(root, rel)), exist_ok=True)
        with open(os.path.join(root, rel), 'w') as f_:
            f_.write(text)
    try:
        serial = [0]

        def make_pkg(tagname, src):
            serial[0] += 1
            pkg = f'vc05p{os.getpid()}_{serial[0]}{tagname}'
            os.makedirs(os.path.join(root, pkg))
            open(os.path.join(root, pkg, '__init__.py'), 'w').close()
            path = os.path.join(root, pkg, 'mod.py')
            with open(path, 'w') as f:
                f.write(src)
            importlib.invalidate_caches()
            return pkg, path

        def one_case(stream, idx, src, confname, confkw, planted, plant_line, features, hostile=()):
            conf = BeartypeConf(**confkw)
            pep526 = confkw.get('claw_is_pep526', True)
            pf = place_name(confkw.get('claw_decor_place_func', BeartypeDecorPlace.LAST_BEFORE_DECOR_HOSTILE))
            pt = place_name(confkw.get('claw_decor_place_type', BeartypeDecorPlace.LAST))
            wit = dict(conf=confname, planted=planted, planted_line=plant_line, source=src[:3000])
            # ---- unhooked --------------------------------------------------------------------
            pkg_p, path_p = make_pkg('plain', src)
            t_plain, e_plain, _, m_plain, _ = run_import(pkg_p + '.mod')
            if e_plain is not None:
                W.count('generated_module_invalid')      # generator slip: not a case
                return
            # ---- hooked ------------------------------------------------------------------------
            pkg_h, path_h = make_pkg('hook', src)
            beartype_package(pkg_h, conf=conf)
            CAPTURED['asts'] = []
            t_hook, e_hook, line_hook, m_hook, w_hook = run_import(pkg_h + '.mod')
            W.count('hooked_imports')
            hooked_tree = CAPTURED['asts'][-1] if CAPTURED.get('asts') else None
            if len(CAPTURED.get('asts', ())) > 1:
                W.count('several_module_asts_compiled_during_one_import')
            if hooked_tree is None:
                W.count('compile_event_missing')
                W.violation('harness:no-compile-event', 'the compile audit event for the hooked module was not observed', stream, idx, wit)
                return
            W.count('asts_captured')
            # ---- structure -----------------------------------------------------------------------
            import copy
            norm, problems = normalise_hooked(copy.deepcopy(hooked_tree))
            hand_tree, added = by_hand_tree(src, pep526, pf, pt, hostile)
            W.count('injected_decorators_expected', added['decorators'])
            W.count('injected_calls_expected', added['calls'])
            if problems:
                W.violation('structure:' + problems[0][:40], problems[0], stream, idx, wit)
                return
            if ast.dump(norm) != ast.dump(hand_tree):
                # find the first differing top-level statement for the report
                a, b = [ast.unparse(s) for s in norm.body], [ast.unparse(s) for s in hand_tree.body]
                diff = next(((x, y) for x, y in zip(a, b) if x != y), (a[len(b):len(b) + 1], b[len(a):len(a) + 1]))
                kind = 'decorator' if BT in str(diff) else 'check-call' if DIE in str(diff) else 'import' if IMP in str(diff) else 'other'
                W.violation(f'placement-differs:{kind}', f'hooked AST differs from the rule under conf {confname}: hooked {short(diff[0], 200)} vs rule {short(diff[1], 200)}',
                            stream, idx, wit)
                return
            W.count('placements_agree')
            stripped = strip_injected(copy.deepcopy(norm))
            if ast.dump(stripped, include_attributes=True) != ast.dump(ast.parse(src), include_attributes=True):
                W.violation('original-nodes-altered', 'hooked AST minus the injected nodes is not identical (with line/column attributes) to the original AST',
                            stream, idx, wit)
                return
            # injected nodes carry a location inside their statement
            for node in ast.walk(norm):
                if isinstance(node, (ast.FunctionDef, ast.AsyncFunctionDef, ast.ClassDef)):
                    for d in node.decorator_list:
                        if isinstance(d, ast.Name) and d.id == BT and not (getattr(d, 'lineno', None) and
                                                                          min([node.lineno] + [x.lineno for x in node.decorator_list if x is not d]) - 0 <= d.lineno <= node.end_lineno):
                            W.violation('injected-node-location', f'injected decorator of {node.name} has line {getattr(d, "lineno", None)} outside its definition',
                                        stream, idx, wit)
                            return
            W.count('structures_identical')
            # ---- by hand ---------------------------------------------------------------------------
            hand_name = pkg_h + '_hand.mod'
            hmod = types.ModuleType(hand_name)
            hmod.__file__ = path_h
            sys.modules[hand_name] = hmod
            hsrc_tree = copy.deepcopy(hand_tree)
            for node in ast.walk(hsrc_tree):
                if isinstance(node, ast.ImportFrom) and node.module == IMP:
                    node.module = 'vc05byhand'
            bh = types.ModuleType('vc05byhand')
            bh.__dict__[BT] = beartype.beartype(conf=conf)
            bh.__dict__[DIE] = lambda obj, hint: die_if_unbearable(obj, hint, conf=conf)
            bh.__all__ = [BT, DIE]
            sys.modules['vc05byhand'] = bh
            TR.LOG.clear()
            e_hand, line_hand = None, None
            try:
                exec(compile(hsrc_tree, path_h, 'exec'), hmod.__dict__)
            except BaseException as e:   # noqa
                e_hand = e
                for fr in traceback.extract_tb(e.__traceback__):
                    if fr.filename == path_h:
                        line_hand = fr.lineno
            t_hand = list(TR.LOG)
            W.count('by_hand_executions')
            # ---- behaviour ---------------------------------------------------------------------------
            if planted is None:
                W.count('cases_without_violation')
                if e_hook is not None:
                    W.violation('hooked-import-failed:' + type(e_hook).__name__, f'hooked import raised {type(e_hook).__name__}: {short(e_hook, 300)} (line {line_hook}) where the plain import succeeds',
                                stream, idx, wit)
                    return
                if t_hook != t_plain:
                    k = next((i for i, (x, y) in enumerate(zip(t_hook, t_plain)) if x != y), min(len(t_hook), len(t_plain)))
                    W.violation('trace-differs:hooked-vs-unhooked', f'evaluation traces differ at event {k}: hooked {t_hook[k:k + 3]} vs unhooked {t_plain[k:k + 3]} '
                                f'(lengths {len(t_hook)}/{len(t_plain)})', stream, idx, wit)
                    return
                if e_hand is not None or t_hand != t_plain:
                    W.violation('trace-differs:by-hand-vs-unhooked', f'by-hand module: exc={e_hand!r} trace lengths {len(t_hand)}/{len(t_plain)}', stream, idx, wit)
                    return
                g_h = {k: v for k, v in vars(m_hook).items() if not k.startswith('__') and not k.endswith('_beartype__')}
                g_p = {k: v for k, v in vars(m_plain).items() if not k.startswith('__')}
                if set(g_h) != set(g_p):
                    W.violation('globals-differ', f'hooked module globals differ: only hooked {sorted(set(g_h) - set(g_p))[:5]} only plain {sorted(set(g_p) - set(g_h))[:5]}',
                                stream, idx, wit)
                    return
                for k in g_p:
                    if isinstance(g_p[k], (int, str, float, list)) and g_p[k] != g_h[k]:
                        W.violation('globals-differ', f'global {k}: hooked {g_h[k]!r} plain {g_p[k]!r}', stream, idx, wit)
                        return
                W.count('behaviours_equal')
            else:
                W.count('cases_with_planted_violation')
                expect_check = not (planted == 'ann' and not pep526)
                if not expect_check:
                    if e_hook is not None or t_hook != t_plain:
                        W.violation('pep526-off-still-checked', f'claw_is_pep526=False but the annotated assignment was checked / trace differs: {e_hook!r}', stream, idx, wit)
                    else:
                        W.count('pep526_off_respected')
                    return
                if e_hook is None:
                    W.violation(f'planted-violation-missed:{planted}', f'the hooked import did not raise for the planted violation at line {plant_line}', stream, idx, wit)
                    return
                if not isinstance(e_hook, BeartypeHintViolation):
                    W.violation('planted-violation-wrong-exception:' + type(e_hook).__name__, f'{type(e_hook).__name__}: {short(e_hook, 200)}', stream, idx, wit)
                    return
                if line_hook != plant_line:
                    W.violation('violation-at-wrong-line', f'violation traceback points at line {line_hook}, the offending statement is line {plant_line}', stream, idx, wit)
                    return
                if 'after-plant' in t_hook:
                    W.violation('statements-ran-after-violation', 'statements after the offending one were executed', stream, idx, wit)
                    return
                if type(e_hand) is not type(e_hook) or line_hand != line_hook or t_hand != t_hook:
                    W.violation('hooked-differs-from-by-hand', f'hooked: {type(e_hook).__name__} line {line_hook} trace {len(t_hook)}; by hand: {type(e_hand).__name__} line {line_hand} trace {len(t_hand)}',
                                stream, idx, wit)
                    return
                # the prefix of the trace equals the unhooked module's
                if t_plain[:len(t_hook)] != t_hook and planted == 'call':
                    W.violation('trace-prefix-differs', 'events before the violation differ from the unhooked module', stream, idx, wit)
                    return
                W.count('planted_violations_raised_at_their_line')
            for k in (pkg_p + '.mod', pkg_p, pkg_h + '.mod', pkg_h, hand_name):
                sys.modules.pop(k, None)
            shutil.rmtree(os.path.join(root, pkg_p), ignore_errors=True)
            shutil.rmtree(os.path.join(root, pkg_h), ignore_errors=True)

        # ---- clause 6: an unsupported hint does not break the import (lead worker) ---------------
        if W.is_lead():
            src6 = (f"from {TRACE_MOD} import T\n"
                    "class K:\n"
                    "    def bad(self, a: 3) -> int:\n        return 1\n"
                    "    def good(self, a: int) -> int:\n        return a\n"
                    "def fbad(a: 'list[') -> int:\n    return 1\n"
                    "def fgood(a: int) -> int:\n    return a\n"
                    "T('done')\n")
            pkg6, path6 = make_pkg('c6', src6)
            beartype_package(pkg6, conf=BeartypeConf())
            t6, e6, l6, m6, w6 = run_import(pkg6 + '.mod')
            W.evaluate(('clause6',))
            W.count('unsupported_hint_scenarios')
            if e6 is not None:
                W.violation('unsupported-hint-breaks-import:' + type(e6).__name__, f'{short(e6, 300)}', 'directed', 0, dict(source=src6))
            else:
                if not any(issubclass(w.category, BeartypeClawDecorWarning) for w in w6):
                    W.violation('unsupported-hint-no-warning', f'no BeartypeClawDecorWarning; warnings: {[w.category.__name__ for w in w6]}', 'directed', 0, dict(source=src6))
                for label, call in (('sibling-method', lambda: m6.K().good('x')), ('sibling-function', lambda: m6.fgood('x'))):
                    try:
                        call()
                        W.violation('unsupported-hint-sibling-unchecked:' + label, f'{label} of a definition with an unsupported hint is no longer checked', 'directed', 0, dict(source=src6))
                    except BeartypeCallHintViolation:
                        W.count('siblings_still_checked')
                try:
                    m6.K().bad('x')
                    m6.fbad('x')
                    W.count('unsupported_left_unchecked')
                except Exception as e:   # noqa
                    W.violation('unsupported-hint-definition-not-left-unchecked', f'{type(e).__name__}: {short(e, 200)}', 'directed', 0, dict(source=src6))

        for idx in W.cases('mod', limit):
            rng = W.rng('mod', idx)
            planted = rng.choice((None, None, 'ann', 'call'))
            g = Gen(rng, planted)
            src = g.module()
            planted = g.plant
            try:
                ast.parse(src)
            except SyntaxError:
                W.count('generated_module_invalid')
                continue
            confname, confkw = rng.choice(CONFS)
            nontrivial = bool(g.features & {'class', 'nested-function', 'annassign'})
            W.evaluate((src, confname) if nontrivial else None)
            for f in g.features:
                W.add('features', f)
            if 'decorator-hostile' in g.features:
                W.count('modules_with_decorator_hostile_decorators')
                for h_, tracked_ in g.hostile:
                    W.add('hostile_decorator_forms', f'{h_} ({"beforelisted" if tracked_ else "untracked control"})')
            W.add('confs', confname)
            if len(W.samples) < 2 and nontrivial and len(src) < 1500:
                W.sample(dict(conf=confname, planted=planted, source=src))
            try:
                one_case('mod', idx, src, confname, confkw, planted, g.planted_line, g.features,
                         hostile=[h for h, tracked in g.hostile if tracked])
            except Exception:
                W.violation('harness-error', traceback.format_exc()[-1200:], 'mod', idx, dict(source=src[:2000], conf=confname))
    finally:
        shutil.rmtree(root, ignore_errors=True)

    W.need('modules_with_decorator_hostile_decorators', 30)
    W.need('hooked_imports', 200)
    W.need('asts_captured', 200)
    W.need('placements_agree', 150)
    W.need('structures_identical', 150)
    W.need('behaviours_equal', 50)
    W.need('planted_violations_raised_at_their_line', 20)
    W.need('injected_decorators_expected', 200)
    W.need('injected_calls_expected', 100)
    W.finish()


guarded(main)

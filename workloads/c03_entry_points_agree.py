"""C03 - all entry points agree; every rejection is the configured, explained
violation (DESIGN §4 C03).  Direct comparison of the six recorded outcomes of
one (hint, object, configuration, draw)."""
import os
import sys

sys.path.insert(0, os.path.dirname(os.path.dirname(os.path.abspath(__file__))))
from vlib.worker import Worker, guarded, short, use_repo

use_repo()
from vlib import draws

draws.install()
from vlib import engine, hints   # noqa: E402
from beartype.roar import (BeartypeDecorHintPepUnsupportedException, BeartypeHintViolation)  # noqa: E402

RULE = ('hint from grammar G x object (conforming / must-reject / partially violating / pool) x configuration '
        'over every combination class of the four violation-type options {default, Exception subclass, Warning '
        'subclass}, verbosity, is_color, strategy {O1, Ologn, On}, is_random x swept draw; all six entry points '
        'run under the same armed draw and their (verdict, signal class, raised-vs-warned, message, culprits) '
        'are compared; distinct by (hint, conf, object repr); non-trivial = at least one entry point rejected '
        'or the hint is nested')

WHERE = {'is_bearable': 'door', 'die_if_unbearable': 'door', 'TypeHint.is_bearable': 'door',
         'TypeHint.die_if_unbearable': 'door', 'param': 'param', 'return': 'return'}


def repr_prefix_ok(c0, x):
    try:
        rx = repr(x)
    except Exception:
        return True
    if not isinstance(c0, str):
        return False
    # beartype's documented stand-in for a non-weak-referenceable culprit is its
    # (possibly truncated) repr, double-quoted when the repr is not a literal.
    if len(c0) >= 2 and c0[0] == c0[-1] == '"':
        c0 = c0[1:-1]
    elif c0.startswith('"'):
        c0 = c0[1:]
    if c0 == rx:
        return True
    k = 0
    for a, b in zip(c0, rx):
        if a != b:
            break
        k += 1
    return k >= min(12, len(rx), len(c0) - 3)


def check_reject(W, stream, idx, ep, out, subj, src, x, cs):
    """Clauses about one rejection; returns a (key, what) or None."""
    where = WHERE[ep]
    if ep.endswith('is_bearable'):
        return None
    exp = cs.expected_class(where)
    e = out.exc
    is_warning_conf = isinstance(exp, type) and issubclass(exp, Warning)
    raised = not out.warned or not any(w.message is e for w in out.warned)
    if type(e) is not exp:
        return ('wrong-signal-class',
                f'{ep}: rejection surfaced as {type(e).__name__}, configured {exp.__name__}')
    if is_warning_conf:
        if raised:
            return ('warning-raised', f'{ep}: configured Warning class {exp.__name__} was raised, not warned')
        W.count('warned_rejections')
        if ep == 'param' and out.value is not engine._SENT:
            return ('warned-call-did-not-proceed', f'{ep}: after warning the call did not run the callable')
        if ep == 'return' and out.value is not x:
            return ('warned-call-did-not-proceed', f'{ep}: after warning the value was not returned')
    else:
        if not raised:
            return ('exception-warned', f'{ep}: configured exception class {exp.__name__} was only warned')
        W.count('raised_rejections')
    msg = engine.strip_ansi(str(e))
    try:
        hrepr = repr(subj.hint)
    except Exception:
        hrepr = None
    if hrepr is not None and hrepr not in msg:
        return ('message-lacks-hint', f'{ep}: message does not name the hint {hrepr!r}: {short(msg, 300)}')
    W.count('messages_checked')
    if isinstance(e, BeartypeHintViolation):
        try:
            cul = e.culprits
        except Exception as ce:   # noqa
            return ('culprits-raise', f'{ep}: .culprits raised {ce!r}')
        if not cul:
            return ('culprits-empty', f'{ep}: empty culprits')
        c0 = cul[0]
        if c0 is not x and not repr_prefix_ok(c0, x):
            return ('culprit-not-object', f'{ep}: culprits[0]={short(c0, 120)} is not the rejected object {short(x, 120)}')
        W.count('culprits_checked')
    return None


def main():
    W = Worker('C03', RULE, assumptions=[
        'verdicts are taken from raise / warn / return, never from returned values',
        'message checks are containment checks of repr(hint); ANSI stripped'])
    quick = W.quick
    depth = 3 if quick else 5
    draw_cap = 5 if quick else 12
    limit = 400000 if quick else 20000000
    # ---- distinct hints that print alike, wrapped one after the other (lead worker) -------------------------------
    if W.is_lead():
        import typing as _t

        def _mk():
            class Record:
                pass
            return Record
        R1, R2 = _mk(), _mk()
        TVI, TVS = _t.TypeVar('T', bound=int), _t.TypeVar('T', bound=str)
        NTI, NTS = _t.NewType('N', int), _t.NewType('N', str)
        twins = [('Record', R1, R2, R1(), R2()), ('list[Record]', list[R1], list[R2], [R1()], [R2()]),
                 ('TypeVar T', TVI, TVS, 1, 's'), ('NewType N', NTI, NTS, 1, 's'), ('List[T]', _t.List[TVI], _t.List[TVS], [1], ['s']),
                 ('Optional[Record]', _t.Optional[R1], _t.Optional[R2], R1(), R2()), ('dict[str, Record]', dict[str, R1], dict[str, R2], {'k': R1()}, {'k': R2()})]
        for i in (W.cases('twins', len(twins)) if W.replay_case else range(len(twins))):
            label, h1, h2, x1, x2 = twins[i]
            cs = engine.ConfSpec()
            subjects = []
            for which, h in (('first', h1), ('second', h2), ('first again', h1)):
                try:
                    subjects.append((which, engine.Subject(h, cs)))
                except Exception as e:   # noqa
                    W.violation('harness-error', f'Subject raised {e!r}', 'twins', i, dict(hint=label))
            for which, subj in subjects:
                if subj.prep_error:
                    continue
                for x in (x1, x2):
                    vs = {}
                    for ep in engine.ENTRY_POINTS:
                        out = subj.run(ep, x, 0)
                        if out.verdict != 'skip':
                            vs[ep] = out.verdict
                            W.count('checks')
                    W.count('comparisons')
                    W.evaluate(('twins', label, which, short(x, 40)))
                    if len(set(vs.values())) > 1:
                        W.violation('entry-points-disagree:same-repr-hints',
                                    f'two distinct hints printing as {label}: the {which} one gives {vs} for {short(x, 60)}',
                                    'twins', i, dict(hint=label, which=which, obj=short(x, 100), verdicts=vs))
                        break
        W.count('twin_cases', len(twins))

    for idx in W.cases('rand', limit):
        rng = W.rng('rand', idx)
        try:
            node = hints.safe_gen_hint(rng, depth)
        except hints.CantGen:
            continue
        cs = engine.gen_conf(rng, violation_options=rng.random() < .7)
        cx = hints.Cx(tower=cs.tower)
        # objects of every relation to the hint
        objs = []
        for _ in range(3):
            m = rng.random()
            try:
                if m < .3:
                    x = node.gen_in(rng, cx)
                elif m < .7:
                    x = node.gen_bad(rng, cx)
                elif m < .85:
                    x = rng.choice(hints.pool())
                else:
                    x = hints.safe_gen_hint(rng, 2).gen_in(rng, cx)
            except hints.CantGen:
                continue
            objs.append(x)
        # a partially violating sequence (sampled verdict depends on the draw)
        if isinstance(node, hints.SeqH) and not node.child.ignorable() and rng.random() < .7:
            try:
                objs.append(node.gen_one_bad(rng, cx)[0])
                W.count('partial_objects')
            except hints.CantGen:
                pass
        if not objs:
            continue
        try:
            subj = engine.Subject(node.hint(), cs)
        except Exception as e:   # noqa
            W.violation('harness-error', f'Subject raised {e!r}', 'rand', idx, dict(hint=node.src))
            continue
        if any(isinstance(e, BeartypeDecorHintPepUnsupportedException) for e in subj.prep_error.values()):
            W.count('hints_declared_unsupported')
            continue
        if subj.prep_error:
            where, e = next(iter(subj.prep_error.items()))
            W.violation('error:' + engine.exc_site(e),
                        f'preparing {where} for {node.src} raised {type(e).__name__}: {short(e, 300)}',
                        'rand', idx, dict(hint=node.src, conf=cs.kw))
            continue
        W.count('hints')
        for k in node.kinds():
            W.add('kinds', k)
        W.add('conf_violation_shapes', tuple(sorted((k, v) for k, v in cs.kw.items() if k.startswith('violation_') and k.endswith('type'))))
        stop = False
        for x in objs:
            if stop:
                break
            dset = draws.draw_set(rng, hints.seq_lens(x), cap=draw_cap, extra_random=1)
            any_reject = False
            for r in dset:
                outs = {}
                for ep in engine.ENTRY_POINTS:
                    out = subj.run(ep, x, r)
                    if out.verdict != 'skip':
                        outs[ep] = out
                        W.count('checks')
                        W.count('draws_served', out.draws)
                W.count('comparisons')
                errs = [(ep, o) for ep, o in outs.items() if o.verdict == 'error']
                if errs:
                    ep, o = errs[0]
                    W.violation('error:' + engine.exc_site(o.exc),
                                f'{ep} raised non-violation {type(o.exc).__name__}: hint={node.src} obj={short(x, 200)} '
                                f'conf={cs!r} exc={short(o.exc, 300)}', 'rand', idx,
                                dict(hint=node.src, obj=short(x, 500), conf=cs.kw, draw=r, entry_point=ep))
                    stop = True
                    break
                vs = {ep: o.verdict for ep, o in outs.items()}
                if len(set(vs.values())) > 1:
                    W.violation('entry-points-disagree',
                                f'verdicts differ under draw {r}: {vs} hint={node.src} obj={short(x, 200)} conf={cs!r}',
                                'rand', idx, dict(hint=node.src, obj=short(x, 500), conf=cs.kw, draw=r, verdicts=vs))
                    stop = True
                    break
                if 'reject' in vs.values():
                    any_reject = True
                    W.count('rejecting_comparisons')
                    for ep, o in outs.items():
                        bad = check_reject(W, 'rand', idx, ep, o, subj, node.src, x, cs)
                        if bad:
                            W.violation(bad[0], f'{bad[1]} | hint={node.src} obj={short(x, 200)} conf={cs!r}', 'rand', idx,
                                        dict(hint=node.src, obj=short(x, 500), conf=cs.kw, draw=r, entry_point=ep))
                            stop = True
                            break
                    if stop:
                        break
                else:
                    W.count('accepting_comparisons')
            W.evaluate((node.src, cs.key(), short(x, 80)) if (any_reject or node.depth() >= 2) else None)
            if len(W.samples) < 3 and any_reject and node.depth() >= 2:
                W.sample(dict(hint=node.src, obj=short(x, 120), conf=cs.kw, draws=dset[:6]))

    W.need('comparisons', 2000)
    W.need('rejecting_comparisons', 500)
    W.need('accepting_comparisons', 200)
    W.need('warned_rejections', 50)
    W.need('raised_rejections', 200)
    W.need('culprits_checked', 100)
    W.need('messages_checked', 200)
    W.need('draws_served', 100)
    W.finish()


guarded(main)

"""C02 - guaranteed detection (reference-model monitor, DESIGN §4 C02).

(a) an object the existential model rules out (`not possible`) is rejected by
    every entry point under every draw;            [contrapositive of the
    "accepted => a consistent sampled path exists" clause - same predicate]
(b) a sequence whose only violating item is item i: some draw in range(len)
    rejects it under is_random=True; under is_random=False the verdict is
    "reject iff i == 0";
(c) a checking call consumes at most one sampler draw, exactly one when it
    samples a sequence under is_random=True.
"""
import os
import sys

sys.path.insert(0, os.path.dirname(os.path.dirname(os.path.abspath(__file__))))
from vlib.worker import Worker, guarded, short, use_repo

use_repo()
from vlib import draws

draws.install()
from vlib import engine, hints   # noqa: E402
from vlib.hints import (AnnotatedH, Cls, MapH, NoneH, QuasiH, SeqH, TupleFixedH, UnionH)  # noqa: E402
from beartype.roar import BeartypeDecorHintPepUnsupportedException  # noqa: E402

RULE = ('(a) objects ruled out by the existential model possible() - planted by gen_bad at every violation '
        'path kind (top-level class, tuple length/position, literal, type bound, union with no member, '
        'validator, all items / keys / values bad), pool objects and conforming objects of unrelated hints - '
        'x configurations x swept draws x six entry points must all reject; (b) single-bad-item sequences, '
        'index reachability by exhaustive sweep of range(len); distinct by (hint, config, object repr); '
        'non-trivial = the object passes the top-level class test or the hint is nested')

DIRECTED_BAD = [
    ('list[int]', "['a']"), ('list[int]', "['a', 'b', 'c']"), ('tuple[int, str]', "(1,)"),
    ('tuple[int, str]', "(1, 2)"), ('tuple[int, str]', "('a', 'a')"), ('tuple[()]', '(1,)'),
    ('Tuple[int, ...]', "('a',)"), ('Literal[1, 2]', '3'), ('Literal[1]', '1.0'), ('Literal["a"]', 'b"a"'),
    ('Literal[True]', '1'), ('Literal[None]', '0'),
    ('type[A]', 'D'), ('type[A]', 'A()'), ('type[Union[A, int]]', 'str'),
    ('Union[int, str]', '1.5'), ('Optional[list[int]]', "['a']"), ('Union[list[int], list[str]]', '[1.5]'),
    ('dict[str, int]', '{1: 1}'), ('dict[str, int]', "{'a': 'a'}"), ('Mapping[str, list[int]]', "{'a': ['b']}"),
    ('Counter[str]', 'Counter({1: 1})'), ('Counter[str]', "Counter({'a': 'x'})"),
    ('set[int]', "{'a'}"), ('frozenset[str]', 'frozenset({1})'), ('deque[int]', "deque(['a'])"),
    ('KeysView[int]', "{'a': 1}.keys()"), ('ValuesView[int]', "{'a': 'b'}.values()"),
    ('Collection[int]', "{'a': 1}"), ('Iterable[int]', "['a']"), ('Iterable[int]', "{'a'}"),
    ('Container[int]', "('a',)"), ('Reversible[int]', "{'a': 1}"),
    ('Annotated[int, Is[pred_even]]', '3'), ('list[Annotated[int, Is[pred_even]]]', '[3]'),
    ('Annotated[list[int], Is[pred_sized_lt3]]', '[1, 2, 3]'),
    ('TB', 'D()'), ('TC', '1.5'), ('NTListInt', "['a']"), ('AliasListInt', "['a']"),
    ('L[int]', "L(['a'])"), ('L[int]', '[1]'), ('M[int]', "M(a='b')"), ('GenSeq[int]', "GenSeq(['a'])"),
    ('HasFoo', 'D()'), ('None', '0'), ('int', "'1'"), ('bool', '1'), ('float', '1'),
    ('list[list[int]]', "[['a']]"), ('list[dict[str, int]]', "[{1: 1}]"),
    ('tuple[list[int], int]', "(['a'], 1)"),
    # walrus-precedence family (Annotated with an ignorable metahint below a container)
    ("list[Annotated[Any, IsEqual['a'], Is[pred_even]]]", "['a']"),
    ("dict[str, Annotated[object, IsEqual['a'], Is[pred_even]]]", "{'k': 'a'}"),
    ("list[Annotated[Any, IsAttr['real', IsEqual[1]]]]", "[2]"),
]


def prep(W, stream, idx, src, hint, cs):
    subj = engine.Subject(hint, cs)
    for e in subj.prep_error.values():
        if isinstance(e, BeartypeDecorHintPepUnsupportedException):
            W.count('hints_declared_unsupported')
            return None
    if subj.prep_error:
        where, e = next(iter(subj.prep_error.items()))
        W.violation('error:' + engine.exc_site(e),
                    f'preparing {where} for {src} raised {type(e).__name__}: {short(e, 300)}',
                    stream, idx, dict(hint=src, conf=cs.kw))
        return None
    return subj


def must_reject(W, stream, idx, subj, src, x, cs, rng, why, draw_cap):
    dset = draws.draw_set(rng, hints.seq_lens(x), cap=draw_cap, extra_random=2)
    W.count('must_reject_objects')
    W.count('path.' + why)
    for r in dset:
        for ep in engine.ENTRY_POINTS:
            out = subj.run(ep, x, r)
            if out.verdict == 'skip':
                continue
            W.count('checks')
            W.count('ep.' + ep)
            W.count('draws_served', out.draws)
            if out.draws > 1:
                W.violation('draws>1', f'{ep} consumed {out.draws} draws for {src}', stream, idx,
                            dict(hint=src, obj=short(x), conf=cs.kw, entry_point=ep))
                return False
            if out.verdict == 'reject':
                W.count('rejected')
                continue
            if out.verdict == 'accept':
                key = f'missed:{why}'
                what = (f'{ep} ACCEPTED an object no sampled path allows (draw {r}): hint={src} '
                        f'obj={short(x, 200)} conf={cs!r}')
            else:
                key = 'error:' + engine.exc_site(out.exc)
                what = (f'{ep} raised {type(out.exc).__name__} instead of rejecting: hint={src} '
                        f'obj={short(x, 200)} conf={cs!r} exc={short(out.exc, 300)}')
            W.violation(key, what, stream, idx,
                        dict(hint=src, obj=short(x, 500), conf=cs.kw, draw=r, entry_point=ep, path=why))
            return False
    return True


def top_kind(node):
    return node.kind.split(':')[0]


def bad_path(node, x, cx):
    """Name the violation path of a must-reject object (for coverage only)."""
    k = top_kind(node)
    if isinstance(node, (SeqH, hints.ReitH, QuasiH)):
        return 'top-class' if not isinstance(x, node.cls) else 'all-items'
    if isinstance(node, MapH):
        if not isinstance(x, node.cls):
            return 'top-class'
        ks = all(not node.key.possible(a, cx) for a in x)
        return 'all-keys' if ks else 'all-values-or-pairs'
    if isinstance(node, TupleFixedH):
        if not isinstance(x, tuple):
            return 'top-class'
        return 'tuple-length' if len(x) != len(node.children) else 'tuple-position'
    if isinstance(node, UnionH):
        return 'union-no-member'
    if isinstance(node, AnnotatedH):
        return 'validator' if node.validators and node.child.possible(x, cx) else 'annotated-base'
    if k in ('literal', 'type'):
        return k
    return 'top-class'


def wrap_context(rng, seqnode, x):
    """Place a sequence hint/object at a position reached without sampling."""
    r = rng.random()
    if r < .4:
        return seqnode, x, 'root'
    if r < .55:
        other = Cls('str')
        return TupleFixedH([seqnode, other]), (x, 's'), 'tuple-position'
    if r < .7:
        return UnionH([seqnode, NoneH()]), x, 'optional'
    if r < .8:
        return AnnotatedH(seqnode, ["'meta'"], False), x, 'annotated'
    if r < .9:
        return MapH('dict', Cls('str'), seqnode), {'k': x}, 'single-pair-mapping'
    return hints.ReitH('set', TupleFixedH([seqnode])) if False else (UnionH([seqnode, Cls('D')]), x, 'union')


def main():
    W = Worker('C02', RULE, assumptions=[
        'possible() in vlib/hints.py is the existential reading of each deciding family',
        'nested sampled sequences share one draw, so joint reachability is not asserted'])
    quick = W.quick
    depth = 3 if quick else 5
    draw_cap = 6 if quick else 14
    env = hints.env()

    if W.is_lead():
        idxs = list(W.cases('directed', len(DIRECTED_BAD))) if W.replay_case else range(len(DIRECTED_BAD))
        for i in idxs:
            hsrc, osrc = DIRECTED_BAD[i]
            rng = W.rng('directed', i)
            hint, x = eval(hsrc, env), eval(osrc, env)
            for cs in (engine.ConfSpec(), engine.ConfSpec(is_random=False), engine.ConfSpec(strategy='On'),
                       engine.ConfSpec(violation_type='warn')):
                subj = prep(W, 'directed', i, hsrc, hint, cs)
                if subj is not None:
                    W.evaluate(('d', hsrc, osrc, cs.key()))
                    must_reject(W, 'directed', i, subj, hsrc, x, cs, rng, 'directed', draw_cap)
            W.count('directed_cases')

    # ---- (a) must-reject objects ----------------------------------------------------
    limit = 400000 if quick else 20000000
    for idx in W.cases('bad', limit, frac=.65):
        rng = W.rng('bad', idx)
        try:
            node = hints.safe_gen_hint(rng, depth, allow_any=rng.random() < .3)
        except hints.CantGen:
            continue
        if not node.all_deciding():
            continue
        cs = engine.gen_conf(rng)
        cx = hints.Cx(tower=cs.tower)
        objs = []
        for _ in range(3):
            mode = rng.random()
            try:
                if mode < .7:
                    x = node.gen_bad(rng, cx)
                elif mode < .85:
                    x = rng.choice(hints.pool())
                else:
                    x = hints.safe_gen_hint(rng, 2).gen_in(rng, cx)
            except hints.CantGen:
                W.count('gen_bad_failed')
                continue
            try:
                poss = node.possible(x, cx)
            except Exception:
                poss = True
            if poss:
                W.count('object_possible_skipped')
                continue
            objs.append(x)
        if not objs:
            continue
        subj = prep(W, 'bad', idx, node.src, node.hint(), cs)
        if subj is None:
            continue
        W.count('hints')
        for k in node.kinds():
            W.add('kinds', k)
        for x in objs:
            why = bad_path(node, x, cx)
            nontrivial = why != 'top-class' or node.depth() >= 2
            W.evaluate(('a', node.src, cs.key(), short(x, 80)) if nontrivial else None)
            if len(W.samples) < 2 and why not in ('top-class',) and node.depth() >= 2:
                W.sample(dict(clause='a', hint=node.src, obj=short(x, 120), path=why, conf=cs.kw))
            if not must_reject(W, 'bad', idx, subj, node.src, x, cs, rng, why, draw_cap):
                break

    # ---- (b) single-bad-item sequences: reachability ---------------------------------
    for idx in W.cases('onebad', limit):
        rng = W.rng('onebad', idx)
        d = rng.randint(0, depth - 1)
        try:
            child = hints.safe_gen_hint(rng, d, allow_any=False, top=False)
        except hints.CantGen:
            continue
        if child.ignorable() or not child.all_deciding():
            continue
        if rng.random() < .8:
            seqnode = SeqH(rng.choice(list(SeqH.ORIGINS)), child)
        else:
            seqnode = QuasiH(rng.choice(('Iterable', 'Container', 'Reversible')), child)
        try:
            n = rng.choice((1, 2, 3, 4, 5, 7, 8, 11, 16))
            i = rng.randrange(n)
            if isinstance(seqnode, SeqH):
                x, n, i = seqnode.gen_one_bad(rng, hints.CX0, n, i)
            else:
                items = [child.gen_in(rng, hints.CX0, 1) for _ in range(n)]
                items[i] = child.gen_bad(rng, hints.CX0, 1)
                x = list(items) if rng.random() < .6 else tuple(items)
        except hints.CantGen:
            W.count('gen_one_bad_failed')
            continue
        # the model must agree this is "exactly item i is bad"
        try:
            items = list(x)
            ok = (len(items) == n and not child.possible(items[i]) and
                  all(child.full(v) for j, v in enumerate(items) if j != i))
        except Exception:
            ok = False
        if not ok:
            W.count('one_bad_model_disagrees_skipped')
            continue
        node, obj, ctx = wrap_context(rng, seqnode, x)
        try:
            node.hint()
        except Exception:
            continue
        if ctx == 'union' and node.members and any(m.possible(obj) for m in node.members if m is not seqnode and m.src != seqnode.src):
            continue
        W.add('contexts', ctx)
        W.add('seq_origins', seqnode.kind)
        strategy = rng.choice((None, None, 'On', 'Ologn'))
        for is_random in (True, False):
            kw = {} if is_random else {'is_random': False}
            if strategy:
                kw['strategy'] = strategy
            cs = engine.ConfSpec(**kw)
            subj = prep(W, 'onebad', idx, node.src, node.hint(), cs)
            if subj is None:
                break
            W.evaluate(('b', node.src, n, i, is_random, strategy))
            if len(W.samples) < 4 and n > 2:
                W.sample(dict(clause='b', hint=node.src, obj=short(obj, 120), n=n, bad_index=i, conf=cs.kw))
            for ep in engine.ENTRY_POINTS:
                verdicts = []
                for r in range(n):
                    out = subj.run(ep, obj, r)
                    if out.verdict == 'skip':
                        break
                    W.count('checks')
                    W.count('ep.' + ep)
                    W.count('draws_served', out.draws)
                    if out.verdict == 'error':
                        W.violation('error:' + engine.exc_site(out.exc),
                                    f'{ep} raised {type(out.exc).__name__}: hint={node.src} obj={short(obj, 200)}',
                                    'onebad', idx, dict(hint=node.src, obj=short(obj, 400), conf=cs.kw, draw=r))
                        break
                    if is_random and out.draws != 1:
                        W.violation('draws!=1', f'{ep} consumed {out.draws} draws on a sampled sequence: {node.src}',
                                    'onebad', idx, dict(hint=node.src, obj=short(obj, 300), conf=cs.kw, entry_point=ep))
                        break
                    verdicts.append(out.verdict)
                if len(verdicts) != n:
                    continue
                W.count('sweeps')
                nrej = verdicts.count('reject')
                W.count('sweep_rejecting_draws', nrej)
                if is_random:
                    if nrej == 0:
                        W.violation('unreachable-index',
                                    f'{ep}: item {i} of {n} is the only violation but no draw in range({n}) rejects: '
                                    f'hint={node.src} obj={short(obj, 200)} conf={cs!r}', 'onebad', idx,
                                    dict(hint=node.src, obj=short(obj, 500), n=n, bad_index=i, conf=cs.kw,
                                         entry_point=ep, context=ctx))
                        break
                else:
                    want = 'reject' if i == 0 else 'accept'
                    if any(v != want for v in verdicts):
                        W.violation('nonrandom-not-item0',
                                    f'{ep}: is_random=False, bad item {i} of {n}: verdicts {sorted(set(verdicts))} '
                                    f'expected all {want}: hint={node.src} obj={short(obj, 200)}', 'onebad', idx,
                                    dict(hint=node.src, obj=short(obj, 500), n=n, bad_index=i, conf=cs.kw,
                                         entry_point=ep, context=ctx))
                        break

    W.need('checks', 2000)
    W.need('rejected', 1000)
    W.need('sweeps', 100)
    W.need('draws_served', 100)
    W.finish()


guarded(main)

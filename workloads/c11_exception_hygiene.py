"""C11 - only beartype's own exceptions for bad hints; user exceptions pass
through (exception-taxonomy monitor at the API boundary over a malformed-hint
fuzzer; identity monitor for user exceptions).  DESIGN §4 C11."""
import os
import sys
import types
import typing
import warnings

sys.path.insert(0, os.path.dirname(os.path.dirname(os.path.abspath(__file__))))
from vlib.worker import Worker, guarded, short, use_repo

REPO = use_repo()
from vlib import draws

draws.install()
from vlib import engine, hints   # noqa: E402
import beartype   # noqa: E402
from beartype import BeartypeConf   # noqa: E402
from beartype.door import TypeHint, die_if_unbearable, is_bearable, is_subhint   # noqa: E402
from beartype.roar import (BeartypeCallException, BeartypeDecorException, BeartypeException,
                           BeartypeHintViolation, BeartypeWarning)   # noqa: E402
from beartype.vale import Is, IsAttr, IsEqual, IsInstance   # noqa: E402

RULE = ('objects used as type hints: valid hints of grammar G mutated by wrong arity, unhashable members, bare special '
        'forms, arbitrary non-hint objects (numbers, containers, strings resolvable / unresolvable / malformed, '
        'descriptors, modules, instances with hostile __eq__/__hash__/__repr__/__getattr__/__bool__), each also nested '
        '1-3 levels inside valid hints, and very deep nestings; passed to @beartype (decoration and call), is_bearable, '
        'die_if_unbearable, TypeHint and is_subhint (both sides); every escaping exception must be a public '
        'beartype.roar.BeartypeException subclass of the documented family, every warning attributed to beartype a '
        'BeartypeWarning; pre-built exceptions raised by wrapped callables, validator callables and __instancecheck__ '
        'hooks must come out as the identical object; distinct by (hint repr, API); non-trivial = the object is not a '
        'plain valid class hint')


class Hostile:
    """Instance whose dunders raise (never used as a checked object, only as a hint)."""
    def __init__(self, mode): self.mode = mode
    def __eq__(self, o):
        if self.mode == 'eq': raise RuntimeError('hostile __eq__')
        return self is o
    def __hash__(self):
        if self.mode == 'hash': raise RuntimeError('hostile __hash__')
        return 7
    def __repr__(self):
        if self.mode == 'repr': raise RuntimeError('hostile __repr__')
        return f'Hostile({self.mode})'
    def __getattr__(self, name):
        if self.mode == 'getattr': raise RuntimeError('hostile __getattr__')
        raise AttributeError(name)
    def __bool__(self):
        if self.mode == 'bool': raise RuntimeError('hostile __bool__')
        return True


# valid hints that are not classes, reachable by name from the functions this module decorates
C11_ALIAS_LIST = list[int]
C11_ALIAS_LITERAL = typing.Literal[1]
C11_ALIAS_UNION = typing.Union[int, str]
# ... and the same, bound only after the callable naming them was decorated (drive() binds and unbinds them)
C11_LATER = {'C11_LATER_LIST': list[int], 'C11_LATER_LITERAL': typing.Literal[1], 'C11_LATER_UNION': typing.Union[int, str]}


class _NeverEq:
    def __eq__(self, other): return False
    def __ne__(self, other): return True
    __hash__ = object.__hash__
    def __repr__(self): return 'NeverEq()'


def special_forms():
    T = typing.TypeVar('T')
    P = typing.ParamSpec('P')
    Ts = typing.TypeVarTuple('Ts')
    out = []
    names = ['Union', 'Literal', 'Optional', 'ClassVar', 'Final', 'Annotated', 'Callable', 'Type', 'Tuple', 'Generic',
             'Protocol', 'Self', 'Never', 'NoReturn', 'LiteralString', 'TypeAlias', 'Concatenate', 'Unpack', 'Required',
             'NotRequired', 'TypeGuard', 'Any', 'AnyStr', 'NamedTuple', 'TypedDict', 'ParamSpec', 'TypeVar', 'NewType',
             'ForwardRef', 'Generator', 'Awaitable', 'SupportsInt', 'Hashable', 'Sized', 'IO', 'TextIO', 'Pattern',
             'Match', 'Deque', 'ChainMap']   # (typing.ByteString is left out: CPython itself warns on every isinstance)
    for n in names:
        if hasattr(typing, n):
            out.append((f'typing.{n}', getattr(typing, n)))
    builders = {
        'ClassVar[int]': lambda: typing.ClassVar[int], 'Final[int]': lambda: typing.Final[int],
        'Required[int]': lambda: typing.Required[int], 'NotRequired[int]': lambda: typing.NotRequired[int],
        'TypeGuard[int]': lambda: typing.TypeGuard[int], 'Concatenate[int, P]': lambda: typing.Concatenate[int, P],
        'P': lambda: P, 'P.args': lambda: P.args, 'P.kwargs': lambda: P.kwargs, 'Ts': lambda: Ts,
        'Unpack[Ts]': lambda: typing.Unpack[Ts], 'Unpack[tuple[int, ...]]': lambda: typing.Unpack[tuple[int, ...]],
        'tuple[*Ts]': lambda: tuple[typing.Unpack[Ts]], 'Generic[T]': lambda: typing.Generic[T],
        'Protocol[T]': lambda: typing.Protocol[T], 'Callable[P, int]': lambda: typing.Callable[P, int],
        'Callable[..., T]': lambda: typing.Callable[..., T], 'ForwardRef("int")': lambda: typing.ForwardRef('int'),
        'ForwardRef("No.Such")': lambda: typing.ForwardRef('No.Such'), 'Literal[[1]]': lambda: typing.Literal[[1]],
        'Literal[{}]': lambda: typing.Literal[{}], 'Literal[1.5]': lambda: typing.Literal[1.5],
        'Literal[int]': lambda: typing.Literal[int], 'Literal[()]': lambda: typing.Literal[()],
        'Callable[[int], [str]]': lambda: typing.Callable[[int], [str]], 'Annotated[int, {}]': lambda: typing.Annotated[int, {}],
        'Annotated[int, []]': lambda: typing.Annotated[int, []], 'dict[str]': lambda: dict[str],
        'dict[str, int, float]': lambda: dict[str, int, float], 'tuple[int, ..., str]': lambda: tuple[int, ..., str],
        'tuple[...]': lambda: tuple[...], 'tuple[..., int]': lambda: tuple[..., int], 'list[int, str]': lambda: list[int, str],
        'list[()]': lambda: list[()], 'type[int, str]': lambda: type[int, str], 'type[1]': lambda: type[1],
        'set[[int]]': lambda: set[[int]], 'list["No.Such"]': lambda: list['No.Such'], 'list[1]': lambda: list[1],
        'dict[1, 2]': lambda: dict[1, 2], 'Union[int, 1]': lambda: typing.Union[int, 'str'],
        'int | "str"': lambda: typing.Union[int, 'NoSuchName'], 'collections.abc.Callable[[], 1]': lambda: __import__('collections').abc.Callable[[], 1],
        'NewType("N", None)': lambda: typing.NewType('N', None), 'NewType("N", list[int])': lambda: typing.NewType('N', list[int]),
        'NewType("N", 3)': lambda: typing.NewType('N', 3), 'TypeVar bound=3': lambda: typing.TypeVar('B3', bound=3),
        'TypeVar bound=Any': lambda: typing.TypeVar('BA', bound=typing.Any),
        'Optional[TypeVar bound=Any]': lambda: typing.Optional[typing.TypeVar('BA2', bound=typing.Any)],
        'TypeVar constraints (1, 2)': lambda: typing.TypeVar('C12', 'a b', 'c d'), 'InitVar[int]': lambda: __import__('dataclasses').InitVar[int],
        'types.UnionType int|str': lambda: int | str, 'types.GenericAlias(list, (1,))': lambda: types.GenericAlias(list, (1,)),
        'types.GenericAlias(int, (str,))': lambda: types.GenericAlias(int, (str,)),
        # names that resolve, at call time, to a valid hint that is not a class
        "'C11_ALIAS_LIST'": lambda: 'C11_ALIAS_LIST', "'C11_ALIAS_LITERAL'": lambda: 'C11_ALIAS_LITERAL',
        "'C11_ALIAS_UNION'": lambda: 'C11_ALIAS_UNION',
        "'C11_LATER_LIST'": lambda: 'C11_LATER_LIST', "'C11_LATER_LITERAL'": lambda: 'C11_LATER_LITERAL',
        "'C11_LATER_UNION'": lambda: 'C11_LATER_UNION',
        # validators whose operand is not equal to itself (the operand travels with the generated code)
        'Annotated[float, IsEqual[nan]]': lambda: typing.Annotated[float, IsEqual[float('nan')]],
        'Annotated[object, IsEqual[NeverEq()]]': lambda: typing.Annotated[object, IsEqual[_NeverEq()]],
        'Annotated[object, IsAttr["real", IsEqual[nan]]]': lambda: typing.Annotated[object, IsAttr['real', IsEqual[float('nan')]]],
        'Annotated[object, IsInstance[int] & ~IsEqual[nan]]': lambda: typing.Annotated[object, IsInstance[int] & ~IsEqual[float('nan')]],
    }
    for n, b in builders.items():
        try:
            out.append((n, b()))
        except Exception:
            pass
    # every subscriptable generic of collections.abc / collections / builtins with every small arity, right or wrong
    # (whatever the runtime lets one construct)
    import collections
    import collections.abc as cabc
    gens = [(f'collections.abc.{n}', getattr(cabc, n)) for n in cabc.__all__
            if hasattr(getattr(cabc, n), '__class_getitem__') and n != 'ByteString']     # (CPython warns on every isinstance)
    gens += [(f'collections.{n}', getattr(collections, n)) for n in ('deque', 'defaultdict', 'OrderedDict', 'Counter', 'ChainMap')]
    gens += [(t.__name__, t) for t in (list, dict, set, frozenset, tuple, type)]
    for gname, g in gens:
        for args, asrc in (((), '()'), ((int,), 'int'), ((int, str), 'int, str'), ((int, str, bytes), 'int, str, bytes'),
                           ((int, str, bytes, float), 'int, str, bytes, float')):
            try:
                out.append((f'{gname}[{asrc}]', g[args if len(args) != 1 else args[0]]))
            except Exception:
                pass
    return out


def junk_objects():
    def fn(a): return a
    class K:
        def m(self): pass
        @property
        def p(self): return 1
    return [
        ('0', 0), ('1', 1), ('True', True), ('1.5', 1.5), ('1j', 1j), ('...', ...), ('NotImplemented', NotImplemented),
        ("''", ''), ("'int'", 'int'), ("'No.Such.Name'", 'No.Such.Name'), ("'NoSuchName'", 'NoSuchName'),
        ("'syntax error('", 'syntax error('), ("'1 +'", '1 +'), ("'list[int'", 'list[int'), ("'int | str'", 'int | str'),
        ("'os.sep'", 'os.sep'), ("' '", ' '), ("'lambda: 0'", 'lambda: 0'), ("b'int'", b'int'),
        ('()', ()), ('(int, str)', (int, str)), ("(int, 'str')", (int, 'str')), ('(int, 1)', (int, 1)), ('((int,),)', ((int,),)),
        ('[int]', [int]), ('{int}', {int}), ("{'a': int}", {'a': int}), ('range(3)', range(3)), ('None', None),
        ('lambda', lambda: 0), ('fn', fn), ('len', len), ('str.upper', str.upper), ("''.upper", ''.upper), ('K.m', K.m), ('K().m', K().m),
        ('K.p (property)', K.__dict__['p']), ('os (module)', os), ('object()', object()), ('type', type), ('object', object),
        ('int.__add__', int.__add__), ('NotImplementedType', type(NotImplemented)), ('types.SimpleNamespace()', types.SimpleNamespace()),
        ('Hostile(eq)', Hostile('eq')), ('Hostile(hash)', Hostile('hash')), ('Hostile(repr)', Hostile('repr')),
        ('Hostile(getattr)', Hostile('getattr')), ('Hostile(bool)', Hostile('bool')), ('Hostile(none)', Hostile('none')),
        ('float("nan")', float('nan')), ('frozenset({int})', frozenset({int})), ('iter([])', iter([])),
        ('staticmethod(fn)', staticmethod(fn)), ('classmethod(fn)', classmethod(fn)), ('super', super), ('Ellipsis type', type(...)),
        # valid hints that are unhashable (the metadata is), and unhashable non-hints
        ('Annotated[int, [1]]', typing.Annotated[int, [1]]), ("Annotated[str, {'k': 1}]", typing.Annotated[str, {'k': 1}]),
        ('Literal[[1]] ', typing.Literal[[1]]), ("bytearray(b'x')", bytearray(b'x')), ('[]', []), ('{}', {}),
    ]


def extra_confs():
    """Non-default configurations the conf-taking entry points are also driven under (one per case, rotated).  None of
    them changes the exception family of a violation or turns decoration errors into warnings."""
    from beartype import BeartypeStrategy, FrozenDict
    return [
        ('is_pep484_tower=True', BeartypeConf(is_pep484_tower=True)),
        ('hint_overrides={bytes: bytes|bytearray}', BeartypeConf(hint_overrides=FrozenDict({bytes: typing.Union[bytes, bytearray]}))),
        ('strategy=On', BeartypeConf(strategy=BeartypeStrategy.On)),
        ('strategy=O0', BeartypeConf(strategy=BeartypeStrategy.O0)),
        ('is_random=False', BeartypeConf(is_random=False)),
        ('is_color=False,violation_verbosity=MAXIMAL', BeartypeConf(is_color=False, violation_verbosity=beartype.BeartypeViolationVerbosity.MAXIMAL)),
        ('claw_is_pep526=False,is_pep557_fields=True', BeartypeConf(claw_is_pep526=False, is_pep557_fields=True)),
    ]


WRAPPERS = [
    ('{}', lambda h: h), ('list[{}]', lambda h: list[h]), ('dict[str, {}]', lambda h: dict[str, h]), ('dict[{}, int]', lambda h: dict[h, int]),
    ('Optional[{}]', lambda h: typing.Optional[h]), ('Union[{}, int]', lambda h: typing.Union[h, int]),
    ('tuple[{}, ...]', lambda h: tuple[h, ...]), ('tuple[int, {}]', lambda h: tuple[int, h]),
    ('Annotated[{}, "m"]', lambda h: typing.Annotated[h, 'm']), ('Callable[[{}], int]', lambda h: typing.Callable[[h], int]),
    ('type[{}]', lambda h: type[h]), ('set[{}]', lambda h: set[h]), ('Iterable[{}]', lambda h: typing.Iterable[h]),
    ('Annotated[{}, Is[...]]', lambda h: typing.Annotated[h, Is[lambda x: True]]), ('List[{}]', lambda h: typing.List[h]),
    ('Mapping[str, {}]', lambda h: typing.Mapping[str, h]), ('type[{}] | None', lambda h: typing.Optional[type[h]]),
    # the same form twice in one hint
    ('tuple[{0}, {0}]', lambda h: tuple[h, h]), ('Union[dict[str, {0}], list[{0}]]', lambda h: typing.Union[dict[str, h], list[h]]),
]

SUBJECTS = [1, 'a', None, [1], {'a': 1}, (1,), int, lambda: 0]


def beartype_attributed(w):
    fn = getattr(w, 'filename', '') or ''
    return fn.startswith(os.path.join(REPO, 'beartype') + os.sep) or fn.startswith('<@beartype')


def main():
    W = Worker('C11', RULE, assumptions=[
        'hints that typing itself refuses to build are skipped (the construction is wrapped)',
        'a violation (BeartypeHintViolation family) is an ordinary outcome, never counted as a leak',
        'KeyboardInterrupt / SystemExit / other BaseExceptions are out of scope',
        'warnings are blamed on beartype only when attributed to a file under beartype/ or to generated code'])
    quick = W.quick
    limit = 200000 if quick else 10000000
    forms = special_forms() + junk_objects()
    confs = extra_confs()

    def observe(api, label, fn, stream, idx, family):
        """Run fn(); judge what escapes.  family: BeartypeException subclass expected for failures."""
        W.count('api_calls')
        W.count('api.' + api)
        with warnings.catch_warnings(record=True) as wl:
            warnings.simplefilter('always')
            try:
                fn()
                W.count('outcome.ok')
                exc = None
            except BeartypeHintViolation:
                W.count('outcome.violation')
                exc = None
            except RecursionError as e:
                exc = e
            except Exception as e:   # noqa
                exc = e
        for w in wl:
            if beartype_attributed(w) and not issubclass(w.category, BeartypeWarning):
                mod = (w.filename or '').replace(REPO + os.sep, '').rsplit('.', 1)[0].replace(os.sep, '.')
                if (w.filename or '').startswith('<@beartype'):
                    mod = 'generated-code'
                W.violation(f'foreign-warning:{w.category.__name__}@{mod}',
                            f'{api}({label}) emitted {w.category.__name__} from {w.filename}:{w.lineno}: {short(w.message, 160)}',
                            stream, idx, dict(api=api, hint=label))
            elif issubclass(w.category, BeartypeWarning):
                W.count('beartype_warnings_seen')
        if exc is None:
            return
        cls = type(exc)
        if isinstance(exc, BeartypeException):
            W.count('outcome.beartype_exception')
            W.add('beartype_exception_classes', cls.__name__)
            if cls.__name__.startswith('_'):
                W.violation('private-exception:' + engine.exc_site(exc),
                            f'{api}({label}) raised the private {cls.__name__}: {short(exc, 200)}', stream, idx,
                            dict(api=api, hint=label, exc=short(exc, 300)))
            elif family is not None and not isinstance(exc, family):
                W.violation(f'wrong-family:{api.split(" (")[0]}:{cls.__name__}',
                            f'{api}({label}) raised {cls.__name__}, not a {family.__name__} subclass', stream, idx,
                            dict(api=api, hint=label, exc=short(exc, 300)))
            return
        if isinstance(exc, RuntimeError) and str(exc).startswith('hostile __'):
            # the hint object's own dunder raised: user code, propagated unchanged
            W.count('outcome.hint_object_own_exception')
            return
        W.violation('leak:' + engine.exc_site(exc),
                    f'{api}({label}) leaked {cls.__name__}: {short(exc, 200)}', stream, idx,
                    dict(api=api, hint=label, exc=short(exc, 300)))

    def drive(label, h, stream, idx, nontrivial=True, all_confs=False):
        subj = SUBJECTS[idx % len(SUBJECTS)]
        W.evaluate((label,) if nontrivial else None)
        observe('is_bearable', label, lambda: is_bearable(subj, h), stream, idx, None)
        observe('die_if_unbearable', label, lambda: die_if_unbearable(subj, h), stream, idx, None)
        observe('TypeHint', label, lambda: TypeHint(h), stream, idx, None)
        observe('is_subhint(h, int)', label, lambda: is_subhint(h, int), stream, idx, None)
        observe('is_subhint(list[int], h)', label, lambda: is_subhint(list[int], h), stream, idx, None)
        box = {}

        def decorate():
            def f(a, b=0):
                return a
            f.__annotations__ = {'a': h, 'return': h}
            box['f'] = beartype.beartype(f)
        for n_ in C11_LATER:
            globals().pop(n_, None)
        observe('@beartype', label, decorate, stream, idx, BeartypeDecorException)
        globals().update(C11_LATER)
        if 'f' in box:
            observe('decorated-call', label, lambda: box['f'](subj), stream, idx, BeartypeCallException)
            # ... and again, and with a class: what a failed first call leaves behind must not change the kind of failure
            observe('decorated-call (2nd)', label, lambda: box['f'](subj), stream, idx, BeartypeCallException)
            observe('decorated-call (class)', label, lambda: box['f'](int), stream, idx, BeartypeCallException)
            observe('decorated-call (class, 2nd)', label, lambda: box['f'](int), stream, idx, BeartypeCallException)
        # the conf-taking entry points once more under one non-default configuration
        for cname, conf in (confs if all_confs else [confs[idx % len(confs)]]):
            drive_conf(label, h, subj, stream, idx, cname, conf)

    def drive_conf(label, h, subj, stream, idx, cname, conf):
        box = {}
        clabel = f'{label} [conf {cname}]'
        W.count('conf.' + cname)
        observe('is_bearable', clabel, lambda: is_bearable(subj, h, conf=conf), stream, idx, None)
        observe('die_if_unbearable', clabel, lambda: die_if_unbearable(subj, h, conf=conf), stream, idx, None)
        box.clear()

        def decorate_conf():
            def f(a, b=0):
                return a
            f.__annotations__ = {'a': h, 'return': h}
            box['f'] = beartype.beartype(conf=conf)(f)
        observe('@beartype', clabel, decorate_conf, stream, idx, BeartypeDecorException)
        if 'f' in box:
            observe('decorated-call', clabel, lambda: box['f'](subj), stream, idx, BeartypeCallException)

    # ---- every form alone and nested (lead worker: the directed sweep) ---------------------
    if W.is_lead():
        k = 0
        for name, h in forms:
            for wname, wrap in WRAPPERS:
                try:
                    hh = wrap(h)
                except Exception:
                    W.count('typing_refused_construction')
                    continue
                drive(wname.format(name), hh, 'directed', k, all_confs=(wname == '{}'))
                k += 1
        W.count('directed_forms', len(forms))
        # very deep nestings
        for depth in (50, 200, 500, 2000):
            for wname, wrap in (('list', lambda h: list[h]), ('Optional', lambda h: typing.Optional[list[h]]),
                                ('tuple', lambda h: tuple[h, int]), ('Annotated', lambda h: typing.Annotated[list[h], 'm'])):
                h = int
                try:
                    for _ in range(depth):
                        h = wrap(h)
                except RecursionError:
                    continue
                drive(f'{wname} nested {depth} deep', h, 'deep', depth)
                W.count('deep_nestings')

        # ---- Annotated metadata that is not beartype's is ignored, whatever it is ---------------------
        # (objects whose mere inspection raises: a weakref proxy whose referent died, a lazy proxy that is not bound
        # yet, an object whose __class__ is a raising property - PEP 593 metadata is arbitrary by definition)
        import weakref

        class _Ref:
            pass
        _r = _Ref()
        dead_proxy = weakref.proxy(_r)
        del _r

        class LazyProxy:
            def __getattribute__(self, name):
                raise RuntimeError('working outside of application context')

        class RaisingClassAttr:
            @property
            def __class__(self):
                raise ValueError('no class for you')
        metas = [('dead weakref.proxy', dead_proxy), ('unbound lazy proxy', LazyProxy()), ('raising __class__', RaisingClassAttr()),
                 ('plain object', object()), ('a list', [1]), ('a lambda', lambda: 0)]
        for mi, (mname, m) in enumerate(metas):
            shapes = [('Annotated[int, M]', lambda: typing.Annotated[int, m]), ("Annotated[int, M, 'x']", lambda: typing.Annotated[int, m, 'x']),
                      ("Annotated[int, 'x', M]", lambda: typing.Annotated[int, 'x', m]),
                      ('list[Annotated[int, M]]', lambda: list[typing.Annotated[int, m]]),
                      ('Optional[Annotated[int, M]]', lambda: typing.Optional[typing.Annotated[int, m]]),
                      ('dict[str, Annotated[int, M]]', lambda: dict[str, typing.Annotated[int, m]]),
                      ('Annotated[list[int], M]', lambda: typing.Annotated[list[int], m])]
            for si, (sname, mk) in enumerate(shapes):
                try:
                    h = mk()
                except Exception:
                    W.count('typing_refused_construction')
                    continue
                label = f'{sname} with M = {mname}'
                W.count('foreign_metadata_hints')
                W.evaluate((label,))
                for api, fn in (('is_bearable', lambda: is_bearable(1, h)), ('die_if_unbearable', lambda: die_if_unbearable([1], h)),
                                ('is_bearable(conf)', lambda: is_bearable(1, h, conf=BeartypeConf(is_random=False)))):
                    W.count('api_calls')
                    try:
                        fn()
                    except BeartypeHintViolation:
                        pass
                    except BeartypeException:
                        W.count('outcome.beartype_exception')
                    except Exception as e:   # noqa
                        W.violation(('leak:' + engine.exc_site(e)) if isinstance(e, TypeError) and 'unhashable' in str(e)
                                    else 'leak:foreign-annotated-metadata:' + type(e).__name__,
                                    f'{api}({label}) leaked {type(e).__name__}: {short(e, 160)} (metadata that is not a beartype validator '
                                    f'is to be ignored)', 'directed', 1000 + mi * 10 + si, dict(api=api, hint=label))
                        break

                def decorate_meta():
                    def f(a):
                        return a
                    f.__annotations__ = {'a': h, 'return': h}
                    return beartype.beartype(f)
                try:
                    decorate_meta()
                except BeartypeException:
                    W.count('outcome.beartype_exception')
                except Exception as e:   # noqa
                    W.violation(('leak:' + engine.exc_site(e)) if isinstance(e, TypeError) and 'unhashable' in str(e)
                                else 'leak:foreign-annotated-metadata:' + type(e).__name__,
                                f'@beartype({label}) leaked {type(e).__name__}: {short(e, 160)}', 'directed', 1000 + mi * 10 + si,
                                dict(api='@beartype', hint=label))

        # ---- user exceptions propagate as the identical object ----------------------------
        class Planted(Exception):
            pass

        def check_identity(what, planted, fn, idx):
            W.count('user_exception_probes')
            try:
                fn()
            except BaseException as e:   # noqa
                if e is planted:
                    W.count('user_exceptions_identical')
                    return
                W.violation('user-exception-replaced:' + what,
                            f'{what}: planted {planted!r} but {type(e).__name__}: {short(e, 160)} came out', 'user', idx, dict(route=what))
                return
            W.violation('user-exception-swallowed:' + what, f'{what}: planted {planted!r} was swallowed', 'user', idx, dict(route=what))
        n = 0
        for conf in (BeartypeConf(), BeartypeConf(is_random=False), BeartypeConf(violation_type=RuntimeError)):
            for exc_cls in (Planted, ValueError, TypeError, KeyError, AttributeError, RecursionError, StopIteration):
                p = exc_cls('planted')

                @beartype.beartype(conf=conf)
                def raiser(a: int) -> int:
                    raise p
                check_identity('wrapped-callable', p, lambda: raiser(1), n)

                def vraise(x):
                    raise p
                hint = typing.Annotated[int, Is[vraise]]
                check_identity('validator:is_bearable', p, lambda: is_bearable(1, hint, conf=conf), n)
                check_identity('validator:die_if_unbearable', p, lambda: die_if_unbearable(1, hint, conf=conf), n)
                check_identity('validator:nested', p, lambda: is_bearable([1], list[hint], conf=conf), n)

                @beartype.beartype(conf=conf)
                def vf(a: hint) -> None:
                    return None
                check_identity('validator:decorated-call', p, lambda: vf(1), n)

                class Meta(type):
                    # raises for the checked value only: a hook raising for *every* object is
                    # (reasonably) diagnosed as "not isinstanceable" when the hint is first seen
                    def __instancecheck__(cls, inst):
                        if inst == 1 and type(inst) is int:
                            raise p
                        return False

                class HookCls(metaclass=Meta):
                    pass
                check_identity('instancecheck:is_bearable', p, lambda: is_bearable(1, HookCls, conf=conf), n)
                check_identity('instancecheck:die_if_unbearable', p, lambda: die_if_unbearable(1, HookCls, conf=conf), n)
                check_identity('instancecheck:nested', p, lambda: is_bearable([1], list[HookCls], conf=conf), n)
                check_identity('instancecheck:union', p, lambda: is_bearable(1, typing.Union[HookCls, str], conf=conf), n)

                @beartype.beartype(conf=conf)
                def hf(a: HookCls) -> None:
                    return None
                check_identity('instancecheck:decorated-call', p, lambda: hf(1), n)
                n += 1

    # ---- random: mutate valid hints of G by planting a form inside ----------------------
    for idx in W.cases('rand', limit):
        rng = W.rng('rand', idx)
        name, h = rng.choice(forms)
        label = name
        try:
            for _ in range(rng.choice((1, 1, 2, 3))):
                wname, wrap = rng.choice(WRAPPERS[1:])
                h = wrap(h)
                label = wname.format(label)
            if rng.random() < .4:
                # put it beside a valid generated hint
                node = hints.safe_gen_hint(rng, 2)
                pos = rng.random()
                if pos < .4:
                    h = tuple[node.hint(), h]
                    label = f'tuple[{node.src}, {label}]'
                elif pos < .7:
                    h = typing.Union[node.hint(), h]
                    label = f'Union[{node.src}, {label}]'
                else:
                    h = dict[str, typing.Union[h, node.hint()]]
                    label = f'dict[str, Union[{label}, {node.src}]]'
        except Exception:
            W.count('typing_refused_construction')
            continue
        W.add('forms_used', name)
        if len(W.samples) < 4:
            W.sample(label)
        drive(label, h, 'rand', idx)

    W.need('api_calls', 3000)
    W.need('outcome.beartype_exception', 500)
    W.need('outcome.ok', 200)
    W.need('user_exception_probes', 100)
    W.need('user_exceptions_identical', 50)
    W.need('deep_nestings', 8)
    W.finish()


guarded(main)

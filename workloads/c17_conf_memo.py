"""C17 - configurations are memoised, comparable and validated the same way
every time (history monitor against a validity predicate written from the
documentation; every history runs in a forked child so that the memo starts
pristine).  DESIGN §4 C17."""
import json
import os
import sys
import threading

sys.path.insert(0, os.path.dirname(os.path.dirname(os.path.abspath(__file__))))
from vlib.worker import Worker, guarded, short, use_repo

use_repo()
import beartype   # noqa: E402
from beartype import (BeartypeConf, BeartypeDecorPlace, BeartypeStrategy, BeartypeViolationVerbosity, FrozenDict)  # noqa: E402
from beartype.roar import BeartypeConfParamException   # noqa: E402

RULE = ('histories of 2-40 BeartypeConf(**kw) constructions drawn from per-option pools of valid values, invalid '
        'values and equal-but-not-identical look-alikes (1/True/1.0, 0/False, equal FrozenDict copies, tuple vs list '
        'vs str skip names, enum value ints), in "valid first" and "look-alike first" orders, each history in a '
        'forked child (pristine memo); per construction the outcome (object / BeartypeConfParamException) must be the '
        'function of its own kwargs given by the validity predicate; plus identity under key order, threads, '
        '**conf.kwargs round trip, ==/hash coherence, read-back; every other valid configuration is then used '
        '(decorated functions, dataclasses decorated in both orders, accepted and rejected arguments and fields, '
        'statement checks) and at the end of the history every configuration is compared with its snapshot at '
        'creation (kwargs, repr, hash, round trip); distinct by the history\'s kwargs sequence; '
        'non-trivial = the history contains a look-alike or invalid value')


class MyExc(Exception):
    pass


class MyWarn(UserWarning):
    pass


class NotExc:
    pass


class TupleSub(tuple):
    pass


PLACES = list(BeartypeDecorPlace)
STRATS = list(BeartypeStrategy)
VERBS = list(BeartypeViolationVerbosity)

BOOL_OPTS = ('claw_is_pep526', 'is_debug', 'is_pep484_tower', 'is_pep557_fields', 'is_random')
BOOL_LOOKALIKES = [1, 0, 1.0, 0.0, None, 'True', 2]

# option -> (valid values, invalid / look-alike values)
POOLS = {
    'claw_decor_place_func': (PLACES, [1, 2, 3, 'LAST', None, PLACES[0].value]),
    'claw_decor_place_type': (PLACES, [1, 2, 'FIRST', None]),
    'claw_skip_package_names': ([(), ('a',), ('a', 'b.c'), frozenset({'a'}), ('a',) + ()],
                                [('a b',), (1,), 5, None, ('',), ('a.',), [1]]),
    'hint_overrides': ([FrozenDict(), FrozenDict({int: str}), FrozenDict({int: str}), FrozenDict({str: bytes}),
                        # equal mappings written in different orders (dict equality ignores insertion order)
                        FrozenDict({int: str, bytes: bool}), FrozenDict({bytes: bool, int: str}),
                        FrozenDict({int: str, bytes: bool, list: tuple}), FrozenDict({list: tuple, bytes: bool, int: str}),
                        # overrides of the tower's own keys: equal to what the tower installs (fine) or contrary (conflict)
                        FrozenDict({float: float | int}), FrozenDict({complex: complex | float | int}),
                        FrozenDict({float: float | int, complex: complex | float | int}), FrozenDict({complex: str}),
                        FrozenDict({float: float | int, complex: str}), FrozenDict({float: str, complex: complex | float | int}),
                        FrozenDict({float: float | int, int: str})],
                       [{}, {int: str}, None, ((int, str),)]),
    'is_color': ([True, False, None], [1, 0, 1.0, 'yes', 2]),
    'strategy': (STRATS, [1, 2, 4, 'O1', None]),
    'violation_door_type': ([None, MyExc, ValueError, MyWarn], [NotExc, 1, 'ValueError', BaseException, MyExc()]),
    'violation_param_type': ([None, MyExc, TypeError, MyWarn], [NotExc, 0, KeyboardInterrupt]),
    'violation_return_type': ([None, MyExc, MyWarn], [NotExc, int]),
    'violation_type': ([None, MyExc, MyWarn, RuntimeError], [NotExc, 1, 'x', object]),
    'violation_verbosity': (VERBS, [1, 2, 3, 'DEFAULT', None]),
    'warning_cls_on_decorator_exception': ([None, MyWarn, UserWarning], [MyExc, 1, 'UserWarning', Warning()]),
}
for b in BOOL_OPTS:
    POOLS[b] = ([True, False], BOOL_LOOKALIKES)

# skip-name collections that are valid by the documentation ("collection of
# identifiers") but cannot be hashed: decided separately (see classify()).
UNHASHABLE_VALID_SKIP = [['a'], {'a'}, ['a', 'b']]


def is_identifier_dotted(s):
    return isinstance(s, str) and s != '' and all(p.isidentifier() for p in s.split('.'))


def valid_value(opt, v):
    """The documented validity predicate of one option value."""
    if opt in BOOL_OPTS:
        return isinstance(v, bool)
    if opt in ('claw_decor_place_func', 'claw_decor_place_type'):
        return isinstance(v, BeartypeDecorPlace)
    if opt == 'claw_skip_package_names':
        import collections.abc as cabc
        # configurations are memoised, hence hashable: "mutable containers ... are
        # prohibited for safety" (BeartypeConf docstring); a list / set of names is
        # therefore an invalid value, to be rejected like any other
        if not _hashable(v):
            return False
        try:
            return isinstance(v, cabc.Collection) and all(is_identifier_dotted(s) for s in v)
        except TypeError:
            return False
    if opt == 'hint_overrides':
        return isinstance(v, FrozenDict)
    if opt == 'is_color':
        return v is None or isinstance(v, bool)
    if opt == 'strategy':
        return isinstance(v, BeartypeStrategy)
    if opt == 'violation_verbosity':
        return isinstance(v, BeartypeViolationVerbosity)
    if opt.startswith('violation_'):
        return v is None or (isinstance(v, type) and issubclass(v, Exception))
    if opt == 'warning_cls_on_decorator_exception':
        return v is None or (isinstance(v, type) and issubclass(v, Warning))
    raise KeyError(opt)


def kw_valid(kw):
    if not all(valid_value(o, v) for o, v in kw.items()):
        return False
    # documented cross-option rule: the tower conflicts with contrary explicit overrides
    if kw.get('is_pep484_tower') is True:
        ho = kw.get('hint_overrides') or {}
        if (float in ho and ho[float] != (float | int)) or (complex in ho and ho[complex] != (complex | float | int)):
            return False
    return True


def kw_repr(kw):
    return '{' + ', '.join(f'{k}={short(v, 40)}' for k, v in sorted(kw.items())) + '}'


def gen_kw(rng, lookalike_rate):
    kw = {}
    for opt in rng.sample(list(POOLS), rng.choice((1, 1, 2, 2, 3, 5))):
        good, bad = POOLS[opt]
        kw[opt] = rng.choice(bad) if rng.random() < lookalike_rate else rng.choice(good)
    return kw


def eq_key(kw):
    """Hashable key under Python equality of the values (1 == True ...)."""
    try:
        return tuple(sorted(kw.items(), key=lambda kv: kv[0]))
    except TypeError:
        return None


def construct(kw):
    try:
        return ('ok', BeartypeConf(**kw))
    except BeartypeConfParamException as e:
        return ('param-exc', e)
    except Exception as e:   # noqa
        return ('other-exc', e)


DEFAULTS = dict(
    claw_decor_place_func=BeartypeDecorPlace.LAST_BEFORE_DECOR_HOSTILE, claw_decor_place_type=BeartypeDecorPlace.LAST,
    claw_is_pep526=True, claw_skip_package_names=(), hint_overrides=FrozenDict(), is_debug=False,
    is_pep484_tower=False, is_pep557_fields=False, is_random=True, strategy=BeartypeStrategy.O1,
    violation_verbosity=BeartypeViolationVerbosity.DEFAULT)


def use_conf(conf):
    """Ordinary use of a configuration: functions, classes, dataclasses (decorated in both orders), statement-level
    checks; accepted and rejected values.  What the uses answer is other checks' business: nothing is judged here."""
    import contextlib
    import dataclasses
    import io
    import warnings
    from beartype import beartype
    from beartype.door import die_if_unbearable, is_bearable

    def attempt(fn):
        try:
            return fn()
        except Exception:   # noqa
            return None
    with contextlib.redirect_stdout(io.StringIO()), warnings.catch_warnings():
        warnings.simplefilter('ignore')

        def uses():
            @beartype(conf=conf)
            def f(a: int, b: list[str] = ()) -> int:
                return a
            attempt(lambda: f(1))
            attempt(lambda: f('x'))
            attempt(lambda: f(1, [2]))

            @beartype(conf=conf)
            @dataclasses.dataclass
            class Rec:
                n: int
                tags: list[str] = dataclasses.field(default_factory=list)

                def bump(self, by: int) -> int:
                    return self.n + by
            attempt(lambda: Rec(1).bump(1))
            attempt(lambda: Rec(1).bump('x'))
            attempt(lambda: Rec('bad'))
            attempt(lambda: setattr(Rec(2), 'n', 'bad'))
            attempt(lambda: setattr(Rec(2), 'n', 3))

            def late():
                @dataclasses.dataclass
                @beartype(conf=conf)
                class Rec2:
                    n: int
                Rec2('bad')
            attempt(late)
            attempt(lambda: is_bearable([1], list[str], conf=conf))
            attempt(lambda: die_if_unbearable([1], list[str], conf=conf))
            attempt(lambda: die_if_unbearable(['a'], list[str], conf=conf))
        attempt(uses)


def run_history(hist):
    """Run in the forked child; returns (violations, counters)."""
    viols, cnt = [], {}
    snaps = []         # (where, conf, kwargs at creation, repr at creation, hash at creation)

    def bump(k, n=1):
        cnt[k] = cnt.get(k, 0) + n
    made = []          # (kw, conf)
    for step, kw in enumerate(hist):
        exp_valid = kw_valid(kw)
        outcome, val = construct(kw)
        bump('constructions')
        bump('outcome.' + outcome)
        where = f'step {step} of {len(hist)}: BeartypeConf(**{kw_repr(kw)})'
        if outcome == 'other-exc':
            # an unhashable value: classify by what was unhashable
            unh = [o for o, v in kw.items() if not _hashable(v)]
            key = 'non-param-exception:' + type(val).__name__ + (':unhashable-' + unh[0] if unh else '')
            viols.append((key, f'{where} raised {type(val).__name__}: {short(val, 200)} instead of BeartypeConfParamException or a configuration'))
            continue
        if exp_valid and outcome != 'ok':
            viols.append(('valid-rejected', f'{where} raised BeartypeConfParamException({short(val, 200)}) although every value is valid'))
            continue
        if not exp_valid and outcome == 'ok':
            # was an equal-comparing valid configuration created earlier in this history?
            earlier = [k for k, c in made if c is val]
            key = 'invalid-accepted-after-equal-valid' if earlier else 'invalid-accepted'
            viols.append((key, f'{where} returned {short(val, 120)} although a value is invalid'
                               + (f'; an equal-comparing valid configuration was created earlier: {kw_repr(earlier[0])}' if earlier else '')))
            continue
        if outcome != 'ok':
            bump('invalid_rejected')
            continue
        conf = val
        bump('valid_accepted')
        # same object for equal kwargs in any order
        rev = dict(reversed(list(kw.items())))
        c2 = BeartypeConf(**rev)
        if c2 is not conf:
            viols.append(('not-memoised', f'{where}: the same kwargs in another order gave a different object'))
        for k0, c0 in made:
            if k0 == kw and all(type(k0[o]) is type(kw[o]) for o in kw) and c0 is not conf:
                viols.append(('not-memoised', f'{where}: equal kwargs constructed earlier gave a different object'))
            if c0 is not conf:
                # differing arguments => unequal (outside the documented overlap families)
                fa, fb = dict(DEFAULTS, **k0), dict(DEFAULTS, **kw)
                # options given identically on both sides (e.g. the per-history isolation class) cannot make them differ
                diff = {k for k in set(k0) | set(kw) if not (k in k0 and k in kw and k0[k] is kw[k])}
                overlap = any(k.startswith('violation_') and k != 'violation_verbosity' for k in diff) or \
                    fa.get('is_pep484_tower') or fb.get('is_pep484_tower') or 'is_color' in diff \
                    or 'warning_cls_on_decorator_exception' in diff
                if not overlap and fa != fb and c0 == conf:
                    viols.append(('differing-args-equal', f'{where}: equal to the configuration of {kw_repr(k0)}'))
                if c0 == conf and hash(c0) != hash(conf):
                    viols.append(('eq-without-equal-hash', f'{where}: == {kw_repr(k0)} but hashes differ'))
                bump('pairs_compared')
        # read-back
        for o, v in kw.items():
            got = getattr(conf, o)
            if o == 'is_color' or (o == 'hint_overrides' and kw.get('is_pep484_tower')):
                continue
            if o.startswith('violation_') and o != 'violation_verbosity' and v is None:
                continue         # None = "the default class", read back as that class
            same = got == v if o != 'claw_skip_package_names' else set(got) == set(v)
            if not same:
                viols.append(('read-back-differs', f'{where}: option {o} reads back {short(got, 80)}'))
            bump('options_read_back')
        # round trip
        try:
            rt = BeartypeConf(**conf.kwargs)
            if rt is not conf:
                viols.append(('kwargs-roundtrip-not-identical', f'{where}: BeartypeConf(**conf.kwargs) is not conf'
                              + (' (equal)' if rt == conf else ' (not even equal)')))
        except Exception as e:   # noqa
            viols.append(('kwargs-roundtrip-raises', f'{where}: BeartypeConf(**conf.kwargs) raised {type(e).__name__}: {short(e, 160)}'))
        bump('roundtrips')
        made.append((kw, conf))
        if not any(c is conf for _, c, _, _, _ in snaps):
            snaps.append((where, conf, dict(conf.kwargs), repr(conf), hash(conf)))
        if step % 2 == 0:
            use_conf(conf)
            bump('confs_used')
    # a configuration is a value: using it changes nothing about it
    for where, conf, kwargs0, repr0, hash0 in snaps:
        bump('rechecked_after_use')
        changed = sorted(o for o in set(kwargs0) | set(conf.kwargs) if o not in conf.kwargs or o not in kwargs0
                         or conf.kwargs[o] is not kwargs0[o] and conf.kwargs[o] != kwargs0[o])
        if changed:
            viols.append(('kwargs-changed-after-use', f'{where}: after the history, conf.kwargs differs from what it was at creation in {changed}: '
                                                      f'{short({o: conf.kwargs.get(o) for o in changed}, 200)}'))
        elif repr(conf) != repr0 or hash(conf) != hash0:
            viols.append(('repr-or-hash-changed-after-use', f'{where}: repr/hash differ from what they were at creation'))
        else:
            try:
                if BeartypeConf(**conf.kwargs) is not conf:
                    viols.append(('kwargs-roundtrip-not-identical-after-use', f'{where}: BeartypeConf(**conf.kwargs) is not conf any more'))
            except Exception as e:   # noqa
                viols.append(('kwargs-roundtrip-raises-after-use', f'{where}: {type(e).__name__}: {short(e, 160)}'))
    return viols, cnt


def _hashable(v):
    try:
        hash(v)
        return True
    except TypeError:
        return False


def forked(fn, *a):
    r, w = os.pipe()
    pid = os.fork()
    if pid == 0:
        try:
            os.close(r)
            try:
                res = fn(*a)
                payload = json.dumps(dict(ok=res), default=short)
            except BaseException as e:   # noqa
                import traceback
                payload = json.dumps(dict(err=traceback.format_exc()[-1500:]))
            with os.fdopen(w, 'w') as f:
                f.write(payload)
        finally:
            os._exit(0)
    os.close(w)
    with os.fdopen(r) as f:
        data = f.read()
    os.waitpid(pid, 0)
    return json.loads(data) if data else dict(err='child died silently')


def thread_history(kw, n=8):
    """n threads construct the same fresh kwargs at once."""
    out, barrier = [None] * n, threading.Barrier(n)
    sys.setswitchinterval(1e-6)

    def run(i):
        barrier.wait()
        out[i] = construct(dict(kw))
    ts = [threading.Thread(target=run, args=(i,)) for i in range(n)]
    for t in ts:
        t.start()
    for t in ts:
        t.join()
    objs = {id(v) for o, v in out if o == 'ok'}
    bad = [o for o, v in out if o != 'ok']
    return [('threads-different-objects', f'{len(objs)} distinct objects from {n} threads for {kw_repr(kw)}')] * (len(objs) > 1) + \
           [('threads-raised', f'{bad[:2]} for {kw_repr(kw)}')] * bool(bad), dict(thread_constructions=n)


def main():
    W = Worker('C17', RULE, assumptions=[
        'validity predicate per option written from the BeartypeConf documentation',
        'inequality is asserted only outside the documented overlap families (tower vs explicit overrides, '
        'violation_type vs its specialisations, environment-resolved is_color)',
        'every history starts from the memo state left by "import beartype" (forked child)'])
    quick = W.quick
    limit = 200000 if quick else 10000000

    # ---- directed histories (lead worker) ------------------------------------------------
    if W.is_lead():
        directed = [
            [dict(is_debug=True), dict(is_debug=1)], [dict(is_debug=1), dict(is_debug=True), dict(is_debug=1)],
            [dict(is_random=False), dict(is_random=0)], [dict(claw_is_pep526=False), dict(claw_is_pep526=0.0)],
            [dict(is_color=True), dict(is_color=1)], [dict(is_color=1)],
            [dict()], [dict(is_pep484_tower=True)], [dict(strategy=BeartypeStrategy.On), dict(strategy=4)],
            [dict(violation_type=MyExc)], [dict(violation_type=MyWarn, violation_door_type=MyExc)],
            [dict(hint_overrides=FrozenDict({int: str})), dict(hint_overrides=FrozenDict({int: str}))],
            [dict(claw_skip_package_names=('a',)), dict(claw_skip_package_names=['a'])],
            [dict(claw_skip_package_names=['a'])], [dict(claw_skip_package_names={'a'})],
            [dict(claw_skip_package_names=('a',)), dict(claw_skip_package_names=TupleSub(('a',)))],
            [dict(is_pep484_tower=True, hint_overrides=FrozenDict({float: str}))],
            [dict(is_debug=True, is_random=False), dict(is_random=False, is_debug=True)],
        ]
        for i, h in enumerate(directed):
            res = forked(run_history, h)
            W.evaluate(('d', i))
            W.count('directed_histories')
            absorb(W, 'directed', i, res, h)

    for idx in W.cases('hist', limit):
        rng = W.rng('hist', idx)
        mode = rng.choice(('valid-first', 'lookalike-first', 'mixed', 'threads'))
        # Histories run in-process (forking per history does not scale on this VM).  So that
        # nothing constructed by an earlier history can be hit by this one, every kwargs of
        # a history carries a class created for this history alone in a free class-valued
        # option: memo keys of different histories can then never compare equal.
        fresh_w = type(f'FreshWarn{idx}', (UserWarning,), {})
        fresh_e = type(f'FreshExc{idx}', (Exception,), {})

        def isolate(kw):
            for opt, val in (('warning_cls_on_decorator_exception', fresh_w), ('violation_return_type', fresh_e),
                             ('violation_param_type', fresh_e), ('violation_door_type', fresh_e)):
                if opt not in kw:
                    return dict(kw, **{opt: val})
            return None
        if mode == 'threads':
            kw = isolate(gen_kw(rng, 0.0))
            if kw is None or not kw_valid(kw):      # (all-valid values can still conflict across options)
                continue
            res = dict(ok=thread_history(kw))
            W.count('thread_histories')
            absorb(W, 'hist', idx, res, [kw])
            continue
        n = rng.choice((2, 3, 5, 8, 12, 20, 40)) if not quick else rng.choice((2, 3, 5, 8, 12))
        base = [gen_kw(rng, 0.0) for _ in range(max(1, n // 2))]
        look = []
        for kw in base:
            k2 = dict(kw)
            for o in k2:
                # replace by an equal-but-not-identical look-alike where one exists
                for cand in POOLS[o][1] + UNHASHABLE_VALID_SKIP * (o == 'claw_skip_package_names'):
                    try:
                        if cand == k2[o] and type(cand) is not type(k2[o]) and rng.random() < .7:
                            k2[o] = cand
                            break
                    except Exception:
                        pass
            look.append(k2)
        extra = [gen_kw(rng, .35) for _ in range(n - len(base))]
        if mode == 'valid-first':
            hist = base + look + extra
        elif mode == 'lookalike-first':
            hist = look + base + extra
        else:
            hist = base + look + extra
            rng.shuffle(hist)
        hist = [isolate(k) for k in hist]
        if any(k is None for k in hist):
            W.count('histories_without_free_class_option_skipped')
            continue
        nontrivial = any(not kw_valid(k) for k in hist) or any(
            any(type(k[o]) is not type(b[o]) for o in b) for k, b in zip(look, base))
        W.evaluate(('h', mode, tuple(kw_repr(k) for k in hist)) if nontrivial else None)
        W.count('histories')
        W.add('modes', mode)
        if len(W.samples) < 3 and nontrivial:
            W.sample(dict(mode=mode, history=[kw_repr(k) for k in hist[:6]]))
        try:
            res = dict(ok=run_history(hist))
        except Exception:
            import traceback
            res = dict(err=traceback.format_exc()[-1500:])
        absorb(W, 'hist', idx, res, hist)

    W.need('histories', 300)
    W.need('constructions', 2000)
    W.need('valid_accepted', 500)
    W.need('invalid_rejected', 200)
    W.need('roundtrips', 300)
    W.need('thread_constructions', 100)
    W.finish()


def absorb(W, stream, idx, res, hist):
    if 'err' in res:
        W.violation('harness-error', res['err'], stream, idx, dict(history=[kw_repr(k) for k in hist]))
        return
    viols, cnt = res['ok']
    for k, n in cnt.items():
        W.count(k, n)
    seen = set()
    for key, what in viols:
        if key in seen:
            continue
        seen.add(key)
        W.violation(key, what, stream, idx, dict(history=[kw_repr(k) for k in hist]))


guarded(main)

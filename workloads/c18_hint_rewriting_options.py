"""C18 - hint-rewriting options behave like rewriting the hints by hand
(metamorphic pairs on the verdict engine, DESIGN §4 C18)."""
import os
import sys

sys.path.insert(0, os.path.dirname(os.path.dirname(os.path.abspath(__file__))))
from vlib.worker import Worker, guarded, short, use_repo

use_repo()
from vlib import draws

draws.install()
from vlib import engine, hints   # noqa: E402
from vlib.hints import Cls, UnionH   # noqa: E402
from beartype.roar import (BeartypeConfException, BeartypeDecorHintPepUnsupportedException)  # noqa: E402

RULE = ('metamorphic pairs: (tower) hint H seeded with float/complex at random depths, checked under '
        'is_pep484_tower=True, against H[float:=float|int, complex:=complex|float|int] (my own structural '
        'substitution) under the default configuration; (overrides) hint_overrides={A: B,...} with A a sub-hint '
        'occurring in H, against H[A:=B] substituted once, simultaneously; (violation types) any combination of '
        'the violation_*type options against none; objects from both sides of the difference; all six entry points '
        'under the same swept draw; distinct by (mode, hint, mapping, object); non-trivial = the rewriting changed the hint')


def seed_numbers(rng, node):
    """Replace some class leaves of `node` by float / complex."""
    def f(n):
        if isinstance(n, Cls) and rng.random() < .5:
            return Cls(rng.choice(('float', 'complex', 'float')))
        if isinstance(n, hints.TypeH) and n.class_names and rng.random() < .6:
            return hints.TypeH(sorted(set(n.class_names) | {rng.choice(('float', 'complex'))}), n.typing_spelling)
        return None
    return hints.rebuild(node, f)


def tower_rewrite(node):
    def f(n):
        if isinstance(n, Cls) and n.name == 'float':
            return UnionH([Cls('float'), Cls('int')])
        if isinstance(n, Cls) and n.name == 'complex':
            return UnionH([Cls('complex'), Cls('float'), Cls('int')])
        if isinstance(n, hints.TypeH) and ({'float', 'complex'} & set(n.class_names)):
            # the tower reaches into type[...] too: type[float | str] stands for type[float | int | str]
            names = set(n.class_names) | {'int'} | ({'float'} if 'complex' in n.class_names else set())
            return hints.TypeH(sorted(names), n.typing_spelling)
        return None
    return hints.rebuild(node, f)


def prep(W, idx, mode, src, hint, cs):
    try:
        subj = engine.Subject(hint, cs)
    except BeartypeConfException:
        W.count('conf_rejected_by_beartype')
        return None
    if any(isinstance(e, BeartypeDecorHintPepUnsupportedException) for e in subj.prep_error.values()):
        W.count('hints_declared_unsupported')
        return None
    if subj.prep_error:
        where, e = next(iter(subj.prep_error.items()))
        W.violation('error:' + engine.exc_site(e), f'[{mode}] preparing {where} for {src} under {cs!r}: {type(e).__name__}: {short(e, 300)}',
                    mode, idx, dict(hint=src, conf=repr(cs.kw)))
        return None
    return subj


def compare(W, mode, idx, rng, sa, sb, desc, objs, draw_cap, witness):
    """Verdicts of subject sa (option) and sb (hand-rewritten) must coincide."""
    for x in objs:
        dset = draws.draw_set(rng, hints.seq_lens(x), cap=draw_cap, extra_random=1)
        for r in dset:
            diffs = []
            for ep in engine.ENTRY_POINTS:
                oa, ob = sa.run(ep, x, r), sb.run(ep, x, r)
                if 'skip' in (oa.verdict, ob.verdict):
                    continue
                W.count('comparisons')
                W.count(f'{mode}.comparisons')
                W.count('draws_served', oa.draws + ob.draws)
                W.count('verdict.' + ob.verdict)
                if oa.verdict != ob.verdict:
                    diffs.append((ep, oa, ob))
            if diffs:
                ep, oa, ob = diffs[0]
                extra = ''
                for o in (oa, ob):
                    if o.verdict == 'error':
                        extra += f' exc={type(o.exc).__name__}: {short(o.exc, 200)}'
                key = f'{mode}:verdict-differs'
                if 'error' in (oa.verdict, ob.verdict):
                    bad = oa if oa.verdict == 'error' else ob
                    key = f'{mode}:error:' + engine.exc_site(bad.exc)
                elif (mode == 'override' and 'None' in witness.get('overrides', {})
                      and all(d[0].startswith('TypeHint.') for d in diffs)):
                    # mechanism: TypeHint(None) wraps NoneType, so an override keyed by None
                    # is looked up under another key through the wrapper API only
                    key = 'override:TypeHint-wrapper-loses-None-key'
                W.violation(key, f'{ep} draw {r}: option gives {oa.verdict}, hand-rewritten hint gives {ob.verdict} '
                                 f'(differing entry points: {[d[0] for d in diffs]}): {desc} obj={short(x, 160)}{extra}',
                            mode, idx, dict(witness, obj=short(x, 400), draw=r, entry_point=ep,
                                            with_option=oa.verdict, by_hand=ob.verdict,
                                            differing=[d[0] for d in diffs]))
                return False
    return True


def main():
    W = Worker('C18', RULE, assumptions=[
        'both sides of every pair are executed by beartype itself; only the substitution is mine',
        'overrides are applied once and simultaneously (no transitive application), as "each occurrence of A replaced by B"'])
    quick = W.quick
    depth = 3 if quick else 4
    draw_cap = 4 if quick else 10
    limit = 400000 if quick else 20000000

    for idx in W.cases('pair', limit):
        rng = W.rng('pair', idx)
        mode = rng.choice(('tower', 'tower', 'override', 'override', 'override', 'viol'))
        try:
            node = hints.safe_gen_hint(rng, depth, allow_any=rng.random() < .2)
        except hints.CantGen:
            continue
        base_kw = {}
        if rng.random() < .3:
            base_kw['is_random'] = False
        if rng.random() < .2:
            base_kw['strategy'] = rng.choice(('On', 'Ologn'))
        if mode == 'tower':
            node = seed_numbers(rng, node)
            try:
                node.hint()
                hand = tower_rewrite(node)
                hand.hint()
            except Exception:
                continue
            changed = hand.src != node.src
            cs_opt = engine.ConfSpec(is_pep484_tower=True, **base_kw)
            cs_hand = engine.ConfSpec(**base_kw)
            desc = f'is_pep484_tower=True on {node.src} vs default on {hand.src}'
            witness = dict(mode=mode, hint=node.src, by_hand=hand.src)
            cx_opt = hints.Cx(tower=True)
        elif mode == 'override':
            subs = [n for n in hints.subnodes(node) if not n.kind.startswith(('any',))]
            if not subs:
                continue
            n_entries = rng.choice((1, 1, 2, 3))
            mapping = {}
            for _ in range(n_entries):
                a = rng.choice(subs)
                # None is not used as a key: typing itself stores NoneType for a None written
                # inside Optional/Union/Annotated (and TypeHint(None) wraps NoneType), so
                # "an occurrence of None" is not well defined at the object level.
                if a.src in mapping or a.src in ('Any', 'object', 'None'):
                    continue
                how = rng.random()
                try:
                    if how < .35:
                        b = UnionH([a, hints.safe_gen_hint(rng, 1, allow_any=False, top=False)])   # B contains A
                    elif how < .5 and mapping:
                        b = hints.rebuild(Cls('int'), lambda n: None)
                        b = rng.choice([hints.Cls(k) if k.isidentifier() else None for k in mapping] + [None]) or Cls('bytes')
                    else:
                        b = hints.safe_gen_hint(rng, 2, allow_any=False, top=False)
                except hints.CantGen:
                    continue
                if b.src == a.src:
                    continue
                # an Annotated target spliced into an Annotated hint is flattened by typing
                # into one metadata list mixing validators and plain metadata, which
                # beartype documents as unsupported: not generated
                if any(isinstance(n, hints.AnnotatedH) for n in b.walk()):
                    continue
                try:
                    # the configuration is built by re-evaluating the key's source: keys
                    # that do not compare equal across evaluations (validators compare by
                    # identity) could never match their occurrence in the hint
                    if eval(a.src, hints.env()) != a.hint():
                        W.count('override_key_not_reproducible_skipped')
                        continue
                    if a.hint() == b.hint():     # e.g. Union[D] is D: a degenerate A -> A entry
                        continue
                except Exception:
                    continue
                mapping[a.src] = b
            if not mapping:
                continue
            # The statement fixes the meaning of one entry {A: B}.  With several
            # entries, whether an A1 occurring inside another entry's B2 is rewritten
            # too is not stated (beartype does rewrite it); such interacting
            # mappings are not decided.
            def opaque_text(nd):
                """Text of everything in nd that my substitution cannot reach: named forms and
                what they stand for (bound, supertype, alias value, bases), type[...], literals,
                the implicit int of Counter[K]."""
                out = ' '.join(n.src for n in nd.walk() if isinstance(n, (hints.NamedH, hints.TypeH, hints.LiteralH)))
                for n in nd.walk():
                    if isinstance(n, hints.NamedH):
                        out += ' ' + (n.under.src if n.under is not None else '')
                        out += ' ' + ' '.join(i.src for i in (n.items or ())[1:])
                    if isinstance(n, hints.MapH) and n.origin == 'Counter':
                        out += ' int'
                return out
            if any(k != k2 and (k in b2.src or k in opaque_text(b2))
                   for k in mapping for k2, b2 in mapping.items()):
                W.count('interacting_override_entries_skipped')
                continue
            # keys are kept out of what my substitution cannot reach
            if any(k in opaque_text(node) or k in opaque_text(b) for k, b in mapping.items()):
                W.count('override_key_inside_opaque_leaf_skipped')
                continue
            try:
                hash_ok = all(hints.is_hashable(eval(k, hints.env())) for k in mapping)
            except Exception:
                continue
            if not hash_ok:
                continue
            # two spellings of one hint (Union[X] is X) would collapse into one dictionary key
            if len({eval(k, hints.env()) for k in mapping}) < len(mapping):
                continue
            hand = hints.rebuild(node, lambda n: mapping.get(n.src))
            try:
                hand.hint()
            except Exception:
                continue
            changed = hand.src != node.src
            pairs = tuple(sorted((k, v.src) for k, v in mapping.items()))
            cs_opt = engine.ConfSpec(hint_overrides=pairs, **base_kw)
            cs_hand = engine.ConfSpec(**base_kw)
            desc = f'hint_overrides={dict(pairs)} on {node.src} vs default on {hand.src}'
            witness = dict(mode=mode, hint=node.src, overrides=dict(pairs), by_hand=hand.src)
            cx_opt = hints.CX0
            W.add('override_shapes', f'{len(pairs)} entries')
        else:
            hand = node
            changed = True
            vkw = {}
            while not vkw:
                for k, choices in (('violation_type', ('exc', 'warn')), ('violation_door_type', ('door_exc', 'door_warn')),
                                   ('violation_param_type', ('param_exc', 'param_warn')),
                                   ('violation_return_type', ('return_exc', 'return_warn'))):
                    if rng.random() < .45:
                        vkw[k] = rng.choice(choices)
            cs_opt = engine.ConfSpec(**vkw, **base_kw)
            cs_hand = engine.ConfSpec(**base_kw)
            desc = f'{vkw} on {node.src} vs none'
            witness = dict(mode=mode, hint=node.src, options=vkw)
            cx_opt = hints.CX0
        def run_pair(node, hand, cs_opt, cs_hand, desc, witness, cx_opt, changed):
            try:
                sa = prep(W, idx, mode, node.src, node.hint(), cs_opt)
            except BeartypeConfException:
                W.count('conf_rejected_by_beartype')
                return
            except Exception as e:   # noqa
                W.violation(f'{mode}:error:' + engine.exc_site(e), f'building configuration {cs_opt.kw!r}: {type(e).__name__}: {short(e, 300)}',
                            'pair', idx, witness)
                return
            sb = prep(W, idx, mode, hand.src, hand.hint(), cs_hand) if sa is not None else None
            if sa is None or sb is None:
                return
            # objects from both sides of the difference
            objs = []
            for n_, cx_ in ((hand, hints.CX0), (node, cx_opt), (node, hints.CX0)):
                for gen in ('gen_in', 'gen_bad'):
                    try:
                        objs.append(getattr(n_, gen)(rng, cx_))
                    except hints.CantGen:
                        pass
            objs.append(rng.choice(hints.pool()))
            if isinstance(hand, hints.SeqH):
                try:
                    objs.append(hand.gen_one_bad(rng)[0])
                except hints.CantGen:
                    pass
            W.evaluate((mode, desc) if changed else None, n=len(objs))
            W.count(f'{mode}.pairs')
            if changed:
                W.count(f'{mode}.pairs_where_rewriting_changed_hint')
            if len(W.samples) < 4 and changed and node.depth() >= 2 and mode != 'viol':
                W.sample(dict(witness, objects=[short(o, 60) for o in objs[:3]]))
            compare(W, mode, idx, rng, sa, sb, desc, objs, draw_cap, witness)

        run_pair(node, hand, cs_opt, cs_hand, desc, witness, cx_opt, changed)
        if mode == 'override' and changed:
            # the rewritten hint itself, now written by the user and met by the SAME configuration (its occurrences of
            # the keys are the user's own and are rewritten like any other), then the original hint again: what was
            # generated for "A overridden by B" and for "B as written" must not be served for one another
            try:
                hand_again = hints.rebuild(hand, lambda n: mapping.get(n.src))
                hand_again.hint()
                W.count('override.rewritten_hint_under_same_configuration')
                run_pair(hand, hand_again, cs_opt, cs_hand, f'(the by-hand hint as user hint) hint_overrides={dict(pairs)} on {hand.src} vs default on {hand_again.src}',
                         dict(mode=mode, hint=hand.src, overrides=dict(pairs), by_hand=hand_again.src, after_hint=node.src), hints.CX0,
                         hand_again.src != hand.src)
                run_pair(node, hand, cs_opt, cs_hand, '(original hint again) ' + desc, dict(witness, after_hint=hand.src), cx_opt, changed)
            except Exception:   # noqa
                W.count('override.rewritten_hint_not_buildable')
        if mode == 'override':
            # the same root hint once more under a configuration overriding the same keys differently (and then under
            # the first configuration again): code generated for one set of overrides must not be served to another
            others = [c for c in ('bytes', 'complex', 'D', 'frozenset') if all(c not in k and k not in c for k in mapping)
                      and c not in node.src]
            if others:
                alt = rng.choice(others)
                mapping2 = {k: Cls(alt) for k in mapping}
                try:
                    hand2 = hints.rebuild(node, lambda n: mapping2.get(n.src))
                    hand2.hint()
                    pairs2 = tuple(sorted((k, v.src) for k, v in mapping2.items()))
                    cs2 = engine.ConfSpec(hint_overrides=pairs2, **base_kw)
                    W.count('override.second_configuration_on_same_hint')
                    run_pair(node, hand2, cs2, engine.ConfSpec(**base_kw), f'(second configuration) hint_overrides={dict(pairs2)} on {node.src} vs default on {hand2.src}',
                             dict(mode=mode, hint=node.src, overrides=dict(pairs2), by_hand=hand2.src, after_overrides=dict(pairs)), hints.CX0,
                             hand2.src != node.src)
                    run_pair(node, hand, cs_opt, cs_hand, '(first configuration again) ' + desc, dict(witness, after_overrides=dict(pairs2)), cx_opt, changed)
                except Exception:   # noqa
                    W.count('override.second_configuration_not_buildable')

    W.need('comparisons', 3000)
    W.need('tower.pairs_where_rewriting_changed_hint', 50)
    W.need('override.pairs_where_rewriting_changed_hint', 50)
    W.need('viol.pairs', 50)
    W.need('verdict.accept', 300)
    W.need('verdict.reject', 300)
    W.finish()


guarded(main)

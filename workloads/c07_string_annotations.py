"""C07 - string and postponed annotations are checked exactly like evaluated ones
(DESIGN §4 C07).

Differential over real module files: one generated definition (a decorated callable
placed at module level / in 1-3 enclosing functions / in a 1-3 deep class nest / in a
class local to a function, plus the classes and aliases its hints name, placed before or
after it in any of the enclosing scopes) is rendered as
  (E)  evaluated annotations, definitions reordered so that every name exists before use
       (methods whose hints go through the class being defined are attached after it),
  (S)  the same annotations as string literals (whole / minimal-partial / random quoting),
  (P)  unquoted annotations under `from __future__ import annotations`,
  (PS) the quoted source of (S) under `from __future__ import annotations`,
each into its own module of a fresh temporary package; the same calls are replayed on all
of them and the verdict traces (accept | exception class) are compared with (E).
A second stream leaves one module-level name undefined, requires a forward-reference
exception from the first call that needs it (and none from calls that do not), defines
the name (rest of the module executed / setattr) and requires the SAME decorated callable
to then agree with (E).  Differences are minimised (position, sub-hint, quoting) before
being keyed, so that keys name placement + kind of reference + hint constructor."""
import builtins
import copy
import importlib
import os
import random
import shutil
import sys
import tempfile
import traceback
import warnings

sys.path.insert(0, os.path.dirname(os.path.dirname(os.path.abspath(__file__))))
from vlib.worker import Worker, guarded, short, use_repo   # noqa: E402

use_repo()
from vlib import draws   # noqa: E402

draws.install()
draws.CTL.armed = 7     # one constant sampler draw for all three variants (a sampled verdict is not a variant difference)
import beartype   # noqa: E402,F401
import beartype.roar as roar   # noqa: E402

FWD_FAMILY = (roar.BeartypeCallHintForwardRefException, roar.BeartypeDecorHintForwardRefException)

RULE = ('one decorated callable per case: module function, closure in 1-3 functions, method in a 1-3 deep class nest '
        '(root class decorated / method decorated / innermost class decorated), method of a class local to 1-2 functions; '
        '1-3 referenced names (classes, 15% aliases of non-class hints) living at module level, in any enclosing '
        'function, in the body of the own or an enclosing class (bare or dotted from the root class), the own / an '
        'enclosing class itself, or nested 1-2 deep in an auxiliary class (dotted), each before or after the callable; '
        'hints: builtins, Optional, Union, |, list, dict[str, .], tuple[., ...], tuple[., .], type[.], Literal, '
        'Annotated[., Is[...]] with module-level validators, Callable, Sequence, depth <= 3; string quoting whole / '
        'minimal (only names and |-unions containing them) / random subtrees; calls by position or keyword with every '
        'position satisfying, or exactly one position violating (wrong atoms, uniformly wrong container items, failing '
        'validators, instances of other / same-named unrelated classes, subclasses), return value likewise; for closures '
        'the calls run while the outermost enclosing frame is alive, after it returned, or split; compared: per-call '
        'verdict (accept | exception class) of S, P and PS against E; unresolved stream: one module-level name (plain or '
        'dotted through an undefined auxiliary class) in one position (R, Optional[R], R | int, Union, Annotated, below '
        'list / dict / tuple / Sequence / list[list], type[R]) left undefined for every placement: calls that cannot '
        'need it, two calls that need it, definition by executing the rest of the module or by setattr, then the full '
        'call list against E; distinct by program structure; non-trivial = at least one hint names a generated class '
        'or alias')

PRELUDE = ['import typing',
           'from typing import Annotated, Callable, Literal, Optional, Union',
           'from collections.abc import Sequence',
           'from beartype import beartype',
           'from beartype.vale import Is',
           'IsPos = Is[lambda x: x > 0]',
           'IsShort = Is[lambda s: len(s) < 4]',
           "IsTagged = Is[lambda o: getattr(o, 'tag', 0) == 1]",
           '_hook = None',
           '']

BUILTIN_LEAVES = ('int', 'str', 'bytes', 'float')
NODE_NAMES = {'ref': 'bare', 'opt': 'Optional', 'union': 'Union', 'bar': 'bar-union', 'list': 'list', 'dict': 'dict',
              'tupv': 'tuple-variadic', 'tupf': 'tuple-fixed', 'type': 'type', 'ann': 'Annotated',
              'callable': 'Callable', 'seq': 'Sequence', 'lit': 'Literal', 'builtin': 'builtin', 'none': 'None'}
ALIASES = [('bar', [('builtin', 'int'), ('none',)]), ('list', ('builtin', 'int')), ('dict', ('builtin', 'int')),
           ('tupf', [('builtin', 'int'), ('builtin', 'str')]), ('lit', [1, 2]), ('opt', ('builtin', 'str')),
           ('union', [('builtin', 'int'), ('builtin', 'str')])]


class _Alien:
    """Instances violate every generated hint; never defined inside a generated module."""


def ind(lines):
    return ['    ' + s for s in lines]


# ---- hints ------------------------------------------------------------------------------------------
def children(h):
    k = h[0]
    if k in ('opt', 'list', 'dict', 'tupv', 'type', 'seq', 'ann'):
        return [h[1]]
    if k in ('union', 'bar', 'tupf'):
        return list(h[1])
    if k == 'callable':
        return list(h[1] or []) + [h[2]]
    return []


def refs_in(h, out=None):
    out = set() if out is None else out
    if h[0] == 'ref':
        out.add(h[1])
    for c in children(h):
        refs_in(c, out)
    return out


def nodes_in(h, out=None):
    out = set() if out is None else out
    out.add(h[0])
    for c in children(h):
        nodes_in(c, out)
    return out


def rsrc(h, sp):
    """Plain source of a hint; `sp(i)` spells reference i."""
    k = h[0]
    if k == 'ref':
        return sp(h[1])
    if k == 'builtin':
        return h[1]
    if k == 'none':
        return 'None'
    if k == 'opt':
        return f'Optional[{rsrc(h[1], sp)}]'
    if k == 'union':
        return 'Union[' + ', '.join(rsrc(c, sp) for c in h[1]) + ']'
    if k == 'bar':
        return ' | '.join(rsrc(c, sp) for c in h[1])
    if k == 'list':
        return f'list[{rsrc(h[1], sp)}]'
    if k == 'dict':
        return f'dict[str, {rsrc(h[1], sp)}]'
    if k == 'tupv':
        return f'tuple[{rsrc(h[1], sp)}, ...]'
    if k == 'tupf':
        return 'tuple[' + ', '.join(rsrc(c, sp) for c in h[1]) + ']'
    if k == 'type':
        return f'type[{rsrc(h[1], sp)}]'
    if k == 'lit':
        return 'Literal[' + ', '.join(repr(v) for v in h[1]) + ']'
    if k == 'ann':
        return f'Annotated[{rsrc(h[1], sp)}, {h[2]}]'
    if k == 'callable':
        args = '...' if h[1] is None else '[' + ', '.join(rsrc(c, sp) for c in h[1]) + ']'
        return f'Callable[{args}, {rsrc(h[2], sp)}]'
    if k == 'seq':
        return f'Sequence[{rsrc(h[1], sp)}]'
    raise AssertionError(h)


def qsrc(h, sp, mode, rng):
    """Source of a hint in which every reference sits inside a string literal.  `minimal` quotes only the names
    (and the |-unions holding them, a str | x being a TypeError); `random` also quotes whole subtrees."""
    if not refs_in(h):
        if mode == 'random' and h[0] != 'none' and rng.random() < .15:
            return repr(rsrc(h, sp))
        return rsrc(h, sp)
    k = h[0]
    if k == 'ref' or k == 'bar' or (mode == 'random' and rng.random() < .3):
        return repr(rsrc(h, sp))
    q = lambda c: qsrc(c, sp, mode, rng)   # noqa: E731
    if k == 'opt':
        return f'Optional[{q(h[1])}]'
    if k == 'union':
        return 'Union[' + ', '.join(q(c) for c in h[1]) + ']'
    if k == 'list':
        return f'list[{q(h[1])}]'
    if k == 'dict':
        return f'dict[str, {q(h[1])}]'
    if k == 'tupv':
        return f'tuple[{q(h[1])}, ...]'
    if k == 'tupf':
        return 'tuple[' + ', '.join(q(c) for c in h[1]) + ']'
    if k == 'type':
        return f'type[{q(h[1])}]'
    if k == 'ann':
        return f'Annotated[{q(h[1])}, {h[2]}]'
    if k == 'callable':
        args = '...' if h[1] is None else '[' + ', '.join(q(c) for c in h[1]) + ']'
        return f'Callable[{args}, {q(h[2])}]'
    if k == 'seq':
        return f'Sequence[{q(h[1])}]'
    raise AssertionError(h)


def gen_hint(rng, cls_refs, all_refs, depth, want_ref):
    def leaf():
        if want_ref and all_refs:
            return ('ref', rng.choice(all_refs))
        return ('builtin', rng.choice(BUILTIN_LEAVES))
    if depth >= 3 or rng.random() < .3 + .15 * depth:
        return leaf()
    sub = lambda w: gen_hint(rng, cls_refs, all_refs, depth + 1, w)   # noqa: E731
    k = rng.choices(['opt', 'union', 'bar', 'list', 'dict', 'tupv', 'tupf', 'type', 'lit', 'ann', 'callable', 'seq'],
                    [4, 3, 5, 4, 3, 2, 2, 2, 1, 2, 1, 2])[0]
    if k == 'opt':
        return ('opt', sub(want_ref))
    if k in ('union', 'bar'):
        ms = [sub(want_ref)]
        for _ in range(rng.randint(1, 2)):
            ms.append(('none',) if rng.random() < .35 and ('none',) not in ms else sub(False))
        rng.shuffle(ms)
        if k == 'bar' and ms[0] == ('none',):
            ms.append(ms.pop(0))
        return (k, ms)
    if k in ('list', 'dict', 'tupv', 'seq'):
        return (k, sub(want_ref))
    if k == 'tupf':
        ms = [sub(want_ref), sub(False)]
        rng.shuffle(ms)
        return ('tupf', ms)
    if k == 'type':
        if want_ref and cls_refs:
            return ('type', ('ref', rng.choice(cls_refs)))
        if want_ref:
            return leaf()
        return ('type', ('builtin', rng.choice(BUILTIN_LEAVES)))
    if k == 'lit':
        if want_ref:
            return leaf()
        return ('lit', rng.choice([[1, 2], ['a', 'b'], [1, 'a'], [7]]))
    if k == 'ann':
        if want_ref and cls_refs:
            return ('ann', ('ref', rng.choice(cls_refs)), 'IsTagged')
        if want_ref:
            return leaf()
        return rng.choice([('ann', ('builtin', 'int'), 'IsPos'), ('ann', ('builtin', 'str'), 'IsShort')])
    if k == 'callable':
        return ('callable', None if rng.random() < .4 else [sub(want_ref)], sub(False))
    raise AssertionError(k)


# ---- values (specs are pure data; realised per variant against that variant's classes) -------------
def conforms(h, v, case):
    """Reference predicate (deep); used to steer generation and for statistics only - the oracle is variant E.
    Returns True when unsure, so that 'certainly violating' values are the ones answered False."""
    k, vk = h[0], v[0]
    if k == 'ref':
        r = case.refs[h[1]]
        if r.alias is not None:
            return conforms(r.alias, v, case)
        return vk in ('inst', 'subinst') and v[1] == h[1]
    if k == 'builtin':
        return vk == h[1]
    if k == 'none':
        return vk == 'none'
    if k == 'opt':
        return vk == 'none' or conforms(h[1], v, case)
    if k in ('union', 'bar'):
        return any(conforms(c, v, case) for c in h[1])
    if k in ('list', 'dict'):
        return vk == k and (v[2] == 0 or conforms(h[1], v[1], case))
    if k == 'tupv':
        if vk == 'tuple':
            return all(conforms(h[1], x, case) for x in v[1])
        return vk == 'tuplen' and (v[2] == 0 or conforms(h[1], v[1], case))
    if k == 'seq':
        if vk in ('str', 'bytes'):
            return True
        return vk in ('list', 'tuplen') and (v[2] == 0 or conforms(h[1], v[1], case)) or (
            vk == 'tuple' and all(conforms(h[1], x, case) for x in v[1]))
    if k == 'tupf':
        if vk == 'tuplen':
            return v[2] == len(h[1]) and all(conforms(c, v[1], case) for c in h[1])
        return vk == 'tuple' and len(v[1]) == len(h[1]) and all(conforms(c, x, case) for c, x in zip(h[1], v[1]))
    if k == 'type':
        t = h[1]
        if t[0] == 'ref':
            return vk in ('cls', 'subcls') and v[1] == t[1]
        return vk == 'bcls' and v[1] == t[1]
    if k == 'lit':
        return vk in ('int', 'str') and any(type(x) is type(v[1]) and x == v[1] for x in h[1])
    if k == 'ann':
        if not conforms(h[1], v, case):
            return False
        if h[2] == 'IsPos':
            return v[1] > 0
        if h[2] == 'IsShort':
            return len(v[1]) < 4 if vk == 'str' else v[2] < 4
        return vk == 'subinst' or (vk == 'inst' and v[2] == 1) if h[2] == 'IsTagged' else True
    if k == 'callable':
        return vk in ('func', 'cls', 'subcls', 'bcls', 'aliencls')
    raise AssertionError(h)


def gen_atom(rng, name):
    if name == 'int':
        return ('int', rng.choice([0, 1, 3, 41, -2]))
    if name == 'str':
        return ('str', rng.choice(['', 'a', 'xy', 'hello']))
    if name == 'bytes':
        return ('bytes', rng.choice([b'', b'ab']))
    return ('float', rng.choice([0.5, -1.25]))


DENSE = [0]   # 1 while minimising: satisfying containers are non-empty and thrice as many calls are drawn


def gen_sat(rng, h, case):
    k = h[0]
    if k == 'ref':
        r = case.refs[h[1]]
        if r.alias is not None:
            return gen_sat(rng, r.alias, case)
        if rng.random() < .15:
            return ('subinst', h[1])
        return ('inst', h[1], rng.randint(0, 1))
    if k == 'builtin':
        return gen_atom(rng, h[1])
    if k == 'none':
        return ('none',)
    if k == 'opt':
        return ('none',) if rng.random() < .3 else gen_sat(rng, h[1], case)
    if k in ('union', 'bar'):
        return gen_sat(rng, rng.choice(h[1]), case)
    if k in ('list', 'dict'):
        return (k, gen_sat(rng, h[1], case), rng.randint(DENSE[0], 3))
    if k == 'tupv':
        return ('tuplen', gen_sat(rng, h[1], case), rng.randint(DENSE[0], 3))
    if k == 'seq':
        return (rng.choice(['list', 'tuplen']), gen_sat(rng, h[1], case), rng.randint(DENSE[0], 3))
    if k == 'tupf':
        return ('tuple', [gen_sat(rng, c, case) for c in h[1]])
    if k == 'type':
        if h[1][0] == 'ref':
            return (rng.choice(['cls', 'cls', 'subcls']), h[1][1])
        return ('bcls', h[1][1])
    if k == 'lit':
        x = rng.choice(h[1])
        return ('int' if isinstance(x, int) else 'str', x)
    if k == 'ann':
        if h[2] == 'IsPos':
            return ('int', rng.choice([1, 5, 77]))
        if h[2] == 'IsShort':
            return ('str', rng.choice(['', 'ab', 'xyz']))
        return ('inst', h[1][1], 1)
    if k == 'callable':
        return ('func',)
    raise AssertionError(h)


def _viol_try(rng, h, case, imp):
    k, x = h[0], rng.random()
    if k == 'ref' and case.refs[h[1]].alias is not None:
        return _viol_try(rng, case.refs[h[1]].alias, case, imp)
    if k in ('list', 'dict', 'tupv', 'seq') and x < .6:
        item = gen_viol(rng, h[1], case, imp)
        if item is not None:
            vk = {'tupv': 'tuplen', 'seq': rng.choice(['list', 'tuplen'])}.get(k, k)
            return (vk, item, rng.randint(1, 3))
    if k == 'tupf' and x < .6:
        items = [gen_sat(rng, c, case) for c in h[1]]
        j = rng.randrange(len(items))
        bad = gen_viol(rng, h[1][j], case, imp)
        if bad is not None:
            items[j] = bad
            return ('tuple', items)
    if k == 'ann' and x < .6:
        if h[2] == 'IsPos':
            return ('int', rng.choice([0, -5]))
        if h[2] == 'IsShort':
            return ('str', 'toolong')
        return ('inst', h[1][1], 0)
    if k == 'opt' and x < .5:
        return gen_viol(rng, h[1], case, imp)
    if k in ('union', 'bar') and x < .5:
        return gen_viol(rng, rng.choice(h[1]), case, imp)
    if k == 'lit' and x < .6:
        return rng.choice([('int', 99), ('str', 'nope')])
    pool = [('int', 7), ('str', 'zz'), ('none',), ('float', 2.5), ('bytes', b'q'), ('func',), ('list', None, 0),
            ('tuple', []), ('alien',), ('aliencls',), ('bcls', 'int'), ('bcls', 'str')]
    for i in sorted(refs_in(h)):
        if case.refs[i].alias is None:
            pool += [('cls', i), ('inst', i, 1)]
            if imp and rng.random() < .12:
                pool += [('impostor', i)] * 6
    for i, r in enumerate(case.refs):
        if r.alias is None and i not in refs_in(h) and r.idx not in case.omit:
            pool += [('inst', i, 1), ('cls', i)]
    return rng.choice(pool)


def gen_viol(rng, h, case, imp=True):
    for _ in range(10):
        v = _viol_try(rng, h, case, imp)
        if v is not None and not conforms(h, v, case):
            return v
    return None


def has_kind(v, kind, ref=None):
    if v[0] == kind:
        return ref is None or v[1] == ref
    if v[0] in ('list', 'dict', 'tuplen'):
        return v[1] is not None and has_kind(v[1], kind, ref)
    if v[0] == 'tuple':
        return any(has_kind(x, kind, ref) for x in v[1])
    return False


class Env:
    """Realises value specs against the classes of one imported variant."""

    def __init__(self, case, ns, mod):
        self.case, self.ns, self.mod = case, ns, mod
        self.cache = {}

    def top(self, name):
        return self.ns[name] if name in self.ns else getattr(self.mod, name)

    def cls(self, i):
        if ('c', i) not in self.cache:
            base, path = self.case.access(i)
            o = self.top(base)
            for a in path:
                o = getattr(o, a)
            self.cache['c', i] = o
        return self.cache['c', i]

    def sub(self, i):
        if ('s', i) not in self.cache:
            c = self.cls(i)
            self.cache['s', i] = type(c.__name__ + 'Sub', (c,), {})
        return self.cache['s', i]

    def imp(self, i):
        if ('i', i) not in self.cache:
            self.cache['i', i] = type(self.cls(i).__name__, (), {})
        return self.cache['i', i]

    def real(self, v):
        k = v[0]
        if k in ('int', 'str', 'float', 'bytes'):
            return v[1]
        if k == 'none':
            return None
        if k == 'inst':
            o = self.cls(v[1])()
            if v[2]:
                o.tag = 1
            return o
        if k == 'subinst':
            o = self.sub(v[1])()
            o.tag = 1
            return o
        if k == 'impostor':
            return self.imp(v[1])()
        if k == 'cls':
            return self.cls(v[1])
        if k == 'subcls':
            return self.sub(v[1])
        if k == 'bcls':
            return getattr(builtins, v[1])
        if k == 'list':
            return [self.real(v[1]) for _ in range(v[2])]
        if k == 'tuplen':
            return tuple(self.real(v[1]) for _ in range(v[2]))
        if k == 'dict':
            return {f'k{j}': self.real(v[1]) for j in range(v[2])}
        if k == 'tuple':
            return tuple(self.real(x) for x in v[1])
        if k == 'func':
            return lambda *a, **kw: None
        if k == 'alien':
            return _Alien()
        if k == 'aliencls':
            return _Alien
        raise AssertionError(v)


# ---- programs ---------------------------------------------------------------------------------------
class Ref:
    def __init__(self, idx, name, home, after, bare=True, alias=None, auxpath=()):
        self.idx, self.name, self.home, self.after = idx, name, home, after
        self.bare, self.alias, self.auxpath = bare, alias, tuple(auxpath)


class Case:
    """chain = a function names then b class names; scope 0 is the module, scope i the body of chain[i-1]."""

    def __init__(self, uid, a, b, deco):
        self.uid, self.a, self.b, self.deco = uid, a, b, deco
        self.chain = [('func', f'fn{uid}x{j}') for j in range(a)] + [('class', f'K{uid}x{j}') for j in range(b)]
        self.n = a + b
        self.refs = []
        self.params = []        # [name, hint | None, default source | None]
        self.ret = None
        self.qmode = {}         # position -> (mode, seed)
        self.tname = (f'm{uid}' if b else f'g{uid}')
        self.omit = frozenset()

    # -- structure
    def scope_kind(self, i):
        return 'module' if i == 0 else self.chain[i - 1][0]

    def cls_path(self, i):
        return '.'.join(name for _, name in self.chain[self.a:i])

    def positions(self):
        return [j for j, p in enumerate(self.params) if p[1] is not None] + (['ret'] if self.ret is not None else [])

    def hint_at(self, p):
        return self.ret if p == 'ret' else self.params[p][1]

    def placement(self):
        if self.b == 0:
            return 'module-function' if self.a == 0 else 'closure'
        base = ('method' if self.a == 0 else 'local-class-method') + ('-nested' if self.b >= 2 else '')
        return base + ':' + {'class': 'class-decorated', 'direct': 'method-decorated',
                             'inner': 'inner-class-decorated'}[self.deco]

    def refkind(self, i):
        r = self.refs[i]
        pre = 'alias-' if r.alias is not None else ''
        h, s = r.home, r.home[1]
        if h[0] == 'self':
            if s == self.n:
                return 'self' if s == self.a + 1 else 'self-nested-dotted'
            return 'enclosing-class'
        order = ':after' if r.after else ':before'
        if h[0] == 'aux':
            return pre + 'aux-dotted-' + ('module' if s == 0 else 'local') + order
        sk = self.scope_kind(s)
        if sk == 'module':
            return pre + 'module' + order
        if sk == 'func':
            return pre + ('enclosing-local' if s == self.a else 'outer-enclosing-local') + order
        if s == self.n:
            return pre + 'own-class-body-' + ('bare' if r.bare else 'dotted') + order
        return pre + 'outer-class-body-dotted' + order

    def placement_key(self):
        return self.placement().replace('-nested', '')

    def unit(self):
        """What @beartype is applied to (keys of the differential stream; the scope of the names is in refmech)."""
        if self.b == 0:
            return 'module-function' if self.a == 0 else 'closure'
        return {'class': 'class-decorated', 'direct': 'method-decorated', 'inner': 'inner-class-decorated'}[self.deco]

    def refmech(self, i):
        """How reference i reaches the decorator: spelling, state of the head name when @beartype runs, its scope."""
        r = self.refs[i]
        sp = 'dotted' if '.' in self.spell(i, False) else 'bare'
        pre = 'alias-' if r.alias is not None and sp == 'bare' else ''   # (the target of a dotted name is secondary)
        if self.via_root(i):
            state = 'class-being-decorated' if self.deco == 'class' else 'class-under-construction'
            return f'{pre}{sp}:head-{state}'
        s = r.home[1]
        sk = self.scope_kind(s)
        if sk == 'class':
            defined, scope = self.deco != 'direct' or not r.after, 'own-class-body'
        else:
            # (a callable inside a function is decorated when get() runs, i.e. after the whole module body)
            defined = not r.after or (s == 0 and self.a >= 1)
            # 'enclosing-function' = the function whose body directly holds the decorated function / class
            near = s == self.a and (self.b == 0 or self.deco == 'class')
            scope = 'module' if sk == 'module' else ('enclosing-function' if near else 'outer-enclosing-function')
        return f'{pre}{sp}:head-{"defined" if defined else "undefined"}-at-decoration-in-{scope}'

    def via_root(self, i):
        r = self.refs[i]
        if r.home[0] == 'self':
            return True
        if r.home[0] == 'scope' and self.scope_kind(r.home[1]) == 'class':
            return not (r.home[1] == self.n and r.bare)
        return False

    def spell(self, i, hoist):
        r = self.refs[i]
        if r.home[0] == 'self':
            return self.cls_path(r.home[1])
        if r.home[0] == 'aux':
            return '.'.join(r.auxpath + (r.name,))
        s = r.home[1]
        if self.scope_kind(s) != 'class' or (s == self.n and r.bare and not hoist):
            return r.name
        return self.cls_path(s) + '.' + r.name

    def access(self, i):
        """(name at function/module level, attribute path) leading to the class of reference i."""
        r = self.refs[i]
        if r.home[0] == 'aux':
            return r.auxpath[0], list(r.auxpath[1:]) + [r.name]
        s = r.home[1]
        if r.home[0] == 'self' or self.scope_kind(s) == 'class':
            names = [name for _, name in self.chain[self.a:s]]
            return names[0], names[1:] + ([] if r.home[0] == 'self' else [r.name])
        return r.name, []

    def used_refs(self, keep=None):
        out = set()
        for p in self.positions():
            if keep is None or p in keep:
                refs_in(self.hint_at(p), out)
        return out

    def signature(self):
        return (self.a, self.b, self.deco, tuple((r.home, r.after, r.bare, r.alias is not None) for r in self.refs),
                tuple(repr(p[1]) for p in self.params), repr(self.ret), tuple(sorted(map(repr, self.qmode.items()))))

    # -- rendering
    def ann(self, p, variant, hoist):
        h = self.hint_at(p)
        sp = lambda i: self.spell(i, hoist)   # noqa: E731
        if variant in ('E', 'P'):
            return rsrc(h, sp)
        mode, seed = self.qmode[p]
        if mode == 'whole':
            return repr(rsrc(h, sp))
        return qsrc(h, sp, mode, random.Random(seed))

    def target_lines(self, variant, keep, hoist, decorated):
        ps = ['self'] if self.b else []
        for j, (pn, h, dflt) in enumerate(self.params):
            s = pn
            annotated = h is not None and (keep is None or j in keep)
            if annotated:
                s += ': ' + self.ann(j, variant, hoist)
            if dflt is not None:
                s += (' = ' if annotated else '=') + dflt
            ps.append(s)
        ps.append('r=None')
        ret = ''
        if self.ret is not None and (keep is None or 'ret' in keep):
            ret = ' -> ' + self.ann('ret', variant, hoist)
        name = '_hm' if hoist else self.tname
        return (['@beartype'] if decorated else []) + [f'def {name}({", ".join(ps)}){ret}:', '    return r']

    def refdef(self, r):
        if r.alias is not None:
            return [f'{r.name} = {rsrc(r.alias, None)}']
        lines = [f'class {r.name}:', '    pass']
        for name in reversed(r.auxpath):
            lines = [f'class {name}:'] + ind(lines)
        return lines

    def top_names(self, i):
        """Names of the classes bound directly in function/module scope i (exported through the namespace)."""
        out = []
        for r in self.refs:
            if r.home[0] in ('scope', 'aux') and r.home[1] == i and r.alias is None and r.idx not in self.omit:
                out.append(r.auxpath[0] if r.home[0] == 'aux' else r.name)
        if self.b and i == self.a:
            out.append(self.chain[self.a][1])
        return out

    def render_scope(self, i, variant, keep, hoist):
        L, sk, n = [], self.scope_kind(i), self.n
        here = [r for r in self.refs if r.home[0] in ('scope', 'aux') and r.home[1] == i and r.idx not in self.omit]
        before = here if variant == 'E' else [r for r in here if not r.after]
        after = [] if variant == 'E' else [r for r in here if r.after]
        for r in before:
            L += self.refdef(r)
        if i < n:
            kind, name = self.chain[i]
            inner = self.render_scope(i + 1, variant, keep, hoist)
            if kind == 'func':
                L += [f'def {name}():'] + ind(inner)
                if sk == 'func':
                    L += [f'_ns = {name}()']
            else:
                deco_cls = not hoist and ((self.deco == 'class' and i == self.a) or
                                          (self.deco == 'inner' and i == n - 1))
                L += (['@beartype'] if deco_cls else []) + [f'class {name}:'] + ind(inner or ['pass'])
                if i == self.a:
                    if hoist:
                        L += self.target_lines(variant, keep, True, True) + [f'{self.cls_path(n)}.{self.tname} = _hm']
                    if sk == 'func':
                        L += [f'_ns = dict(call={self.cls_path(n)}().{self.tname})']
        else:
            if not hoist:
                L += self.target_lines(variant, keep, False, self.b == 0 or self.deco == 'direct')
            if sk == 'func':
                L += [f'_ns = dict(call={self.tname})']
        for r in after:
            L += self.refdef(r)
        if sk == 'func':
            names = self.top_names(i)
            if names:
                L += ['_ns.update(' + ', '.join(f'{x}={x}' for x in names) + ')']
            if i == 1:
                L += ['if _hook is not None:', '    _hook(_ns)']
            L += ['return _ns']
        return L

    def render(self, variant, keep=None):
        hoist = variant == 'E' and any(self.via_root(i) for i in self.used_refs(keep))
        L = (['from __future__ import annotations'] if variant in ('P', 'PS') else []) + list(PRELUDE)
        L += self.render_scope(0, variant, keep, hoist)
        if self.a:
            first = f'_ns = {self.chain[0][1]}()'
        elif self.b:
            first = f'_ns = dict(call={self.cls_path(self.n)}().{self.tname})'
        else:
            first = f'_ns = dict(call={self.tname})'
        body = [first]
        names = self.top_names(0)
        if names:
            body += ['_ns.update(' + ', '.join(f'{x}={x}' for x in names) + ')']
        L += ['', 'def get():'] + ind(body + ['return _ns'])
        return '\n'.join(L) + '\n'


def gen_case(rng, uid, unres=False):
    shape = rng.choices(['mod', 'closure', 'method', 'local'], [2, 4, 6, 2])[0]
    a = {'mod': 0, 'closure': rng.choice([1, 1, 2, 3]), 'method': 0, 'local': rng.choice([1, 1, 2])}[shape]
    b = {'mod': 0, 'closure': 0, 'method': rng.choice([1, 1, 2, 3]), 'local': rng.choice([1, 2])}[shape]
    deco = 'direct' if b == 0 else rng.choice(['class', 'direct'] + (['inner'] if b >= 2 else []))
    case = Case(uid, a, b, deco)
    nscopes = case.n + 1
    homes, weights = [], []
    for i in range(nscopes):
        near = 3 if i >= nscopes - 2 else 1
        if case.scope_kind(i) == 'class':
            homes += [('scope', i), ('self', i)]
            weights += [2 * near, near]
        else:
            homes += [('scope', i), ('aux', i)]
            weights += [2 * near, near]
    nrefs = rng.choices([1, 2, 3], [6, 3, 1])[0]
    for j in range(nrefs):
        name = f'R{uid}x{j}'
        if unres and j == 0:
            home = rng.choice([('scope', 0), ('scope', 0), ('aux', 0)])
        else:
            home = rng.choices(homes, weights)[0]
            if home[0] == 'self' and any(r.home == home for r in case.refs):
                home = ('scope', home[1])
        after = rng.random() < .5 and home[0] != 'self'
        alias = None
        if home[0] == 'scope' and rng.random() < .15 and not (unres and j == 0):
            alias = rng.choice(ALIASES)
        auxpath = ()
        if home[0] == 'aux':
            auxpath = tuple(f'A{uid}x{j}n{d}' for d in range(rng.choice([1, 1, 2])))
        case.refs.append(Ref(j, name, home, after, bare=rng.random() < .5, alias=alias, auxpath=auxpath))
    if not unres and rng.random() < .25:
        # callables are often named after what they handle: the referenced name is a substring of the callable's
        # own (qualified) name - add_Row(self, r: 'Row'), build_Point_parser() ...
        victim = rng.choice(case.refs).name
        if rng.random() < .6 or not case.a:
            case.tname = f'use_{victim}_now'
        else:
            j = rng.randrange(case.a)
            case.chain[j] = ('func', f'make_{victim}_tools')
    return case


def fill_hints(rng, case):
    cls_refs = [r.idx for r in case.refs if r.alias is None]
    all_refs = [r.idx for r in case.refs]
    for j in range(rng.choice([1, 1, 2, 2, 3])):
        case.params.append([f'p{j}', gen_hint(rng, cls_refs, all_refs, 0, rng.random() < .85), None])
    if rng.random() < .8:
        case.ret = gen_hint(rng, cls_refs, all_refs, 0, rng.random() < .8)
    if not case.used_refs():
        case.params[0][1] = gen_hint(rng, cls_refs, all_refs, 0, True)
        if not refs_in(case.params[0][1]):
            case.params[0][1] = ('ref', all_refs[0])
    set_qmodes(rng, case)


def set_qmodes(rng, case):
    for p in case.positions():
        case.qmode[p] = (rng.choice(['whole', 'whole', 'minimal', 'minimal', 'random']), rng.getrandbits(32))


def gen_calls(rng, case, imp=True):
    pos = case.positions()

    def one(bad):
        args = []
        for j, (pn, h, dflt) in enumerate(case.params):
            if h is None:
                args.append(gen_atom(rng, rng.choice(BUILTIN_LEAVES)))
            elif j == bad:
                args.append(gen_viol(rng, h, case, imp) or gen_sat(rng, h, case))
            else:
                args.append(gen_sat(rng, h, case))
        if case.ret is None:
            ret = gen_atom(rng, 'int')
        elif bad == 'ret':
            ret = gen_viol(rng, case.ret, case, imp) or gen_sat(rng, case.ret, case)
        else:
            ret = gen_sat(rng, case.ret, case)
        return dict(args=args, ret=ret, kw=rng.random() < .3, bad=bad)
    plan = [None] + pos + [rng.choice(pos + [None]) for _ in range(rng.randint(2, 4))]
    if DENSE[0]:
        plan = plan * 3
    rng.shuffle(plan)
    return [one(bad) for bad in plan]


# ---- running ----------------------------------------------------------------------------------------
class Pkg:
    """A fresh temporary package holding the modules of one case."""

    def __init__(self, uid):
        self.dir = tempfile.mkdtemp(prefix='c07_', dir='/tmp')
        self.name = f'c07p_{uid}'
        os.mkdir(os.path.join(self.dir, self.name))
        with open(os.path.join(self.dir, self.name, '__init__.py'), 'w'):
            pass
        sys.path.insert(0, self.dir)
        self.count = 0

    def load(self, src, tag):
        self.count += 1
        mname = f'v{tag}{self.count}'
        with open(os.path.join(self.dir, self.name, mname + '.py'), 'w') as f:
            f.write(src)
        importlib.invalidate_caches()
        return importlib.import_module(f'{self.name}.{mname}')

    def close(self):
        for m in [m for m in sys.modules if m == self.name or m.startswith(self.name + '.')]:
            sys.modules.pop(m, None)
        if self.dir in sys.path:
            sys.path.remove(self.dir)
        for p in [p for p in sys.path_importer_cache if p.startswith(self.dir)]:
            sys.path_importer_cache.pop(p, None)
        shutil.rmtree(self.dir, ignore_errors=True)


def one_call(env, fn, c, case):
    args = [env.real(v) for v in c['args']]
    rv = env.real(c['ret'])
    try:
        if c['kw']:
            kw = {p[0]: x for p, x in zip(case.params, args)}
            fn(r=rv, **kw)
        else:
            fn(*args, r=rv)
        return 'accept', ''
    except Exception as e:   # noqa
        return type(e).__name__, short(str(e), 260)


def run_variant(pkg, case, variant, calls, inside=0, keep=None):
    """-> dict(src, decor=(class, msg) | None, trace=[verdict], msgs=[...])."""
    out = dict(src=case.render(variant, keep), decor=None, trace=[], msgs=[], mod=None, ns=None)
    with warnings.catch_warnings():
        warnings.simplefilter('ignore')
        if getattr(case, 'preload', False):
            # the same source was imported once before (a reload, a second copy of the module) and a third party
            # introspected its annotations with typing.get_type_hints(): typing memoises subscriptions process-wide,
            # so the ForwardRef objects inside Optional['X'] / List['X'] are shared with the copy under test and now
            # carry the *other* copy's classes
            try:
                pre = pkg.load(out['src'], variant + 'pre')
                import typing as _typing
                _typing.get_type_hints(pre.get()['call'])
            except Exception:   # noqa
                pass
        try:
            mod = out['mod'] = pkg.load(out['src'], variant)
        except Exception as e:   # noqa
            out['decor'] = (type(e).__name__, short(str(e), 300))
            return out

        def do(ns, cs):
            env = Env(case, ns, mod)
            for c in cs:
                v, msg = one_call(env, ns['call'], c, case)
                out['trace'].append(v)
                out['msgs'].append(msg)
        if inside:
            mod._hook = lambda ns: do(ns, calls[:inside])
        try:
            ns = out['ns'] = mod.get()
        except Exception as e:   # noqa
            if isinstance(e, (AssertionError, KeyError, AttributeError)) and 'beartype' not in traceback.format_exc():
                raise
            out['decor'] = (type(e).__name__, short(str(e), 300))
            return out
        do(ns, calls[inside:])
        if case.a:
            # the enclosing function(s) run a second time: new local classes under the same names, a new closure; the
            # calls of this second invocation (inside and after) are appended to the same trace
            try:
                ns2 = mod.get()
            except Exception as e:   # noqa
                if isinstance(e, (AssertionError, KeyError, AttributeError)) and 'beartype' not in traceback.format_exc():
                    raise
                out['trace'].append('second-invocation-raised:' + type(e).__name__)
                out['msgs'].append(short(str(e), 200))
                return out
            do(ns2, calls[inside:])
    return out


def outcome(o):
    return ('decor', o['decor'][0]) if o['decor'] else tuple(o['trace'])


VARIANT_NAMES = {'S': 'string', 'P': 'postponed', 'PS': 'postponed-string'}


def differs(pkg, case, variant, calls, inside, keep=None):
    e = run_variant(pkg, case, 'E', calls, inside, keep)
    if e['decor']:
        return False
    v = run_variant(pkg, case, variant, calls, inside, keep)
    return outcome(e) != outcome(v)


def classify(pkg, case, variant, calls, inside, oe, ov):
    """Minimise a difference to (position, sub-hint, quoting) and build the mechanism part of its key."""
    bad_idx = [j for j, (x, y) in enumerate(zip(oe['trace'], ov['trace'])) if x != y] if not ov['decor'] else []
    only_imp = bool(bad_idx) and all(
        any(has_kind(v, 'impostor') for v in calls[j % len(calls)]['args'] + [calls[j % len(calls)]['ret']]) for j in bad_idx)
    positions = case.positions()
    culprit = positions[0] if len(positions) == 1 else None
    if culprit is None:
        for p in positions:
            if differs(pkg, case, variant, calls, inside, keep={p}):
                culprit = p
                break
    if culprit is None:
        # (no single annotation reproduces it with these calls: keyed coarsely, the witness carries the program)
        return 'only-with-several-annotations-together', 'any', None
    c2 = copy.copy(case)
    c2.params = [[pn, (h if j == culprit else None), d] for j, (pn, h, d) in enumerate(case.params)]
    c2.ret = case.ret if culprit == 'ret' else None
    c2.qmode = dict(case.qmode)
    h, cur_calls = case.hint_at(culprit), calls

    def with_hint(base, hint):
        c3 = copy.copy(base)
        c3.params = [list(p) for p in base.params]
        if culprit == 'ret':
            c3.ret = hint
        else:
            c3.params[culprit][1] = hint
        return c3
    if not only_imp:
        for _ in range(6):
            for child in [c for c in children(h) if refs_in(c)]:
                c3 = with_hint(c2, child)
                DENSE[0] = 1
                try:
                    calls3 = gen_calls(random.Random(repr(child)), c3, imp=False)
                finally:
                    DENSE[0] = 0
                if differs(pkg, c3, variant, calls3, min(inside, len(calls3))):
                    h, c2, cur_calls = child, c3, calls3
                    break
            else:
                break
    culprit_refs = refs_in(h)
    if only_imp:   # the object, not the hint shape, is what matters: name the impersonated reference only
        vals = [v for j in bad_idx for v in calls[j % len(calls)]['args'] + [calls[j % len(calls)]['ret']]]
        culprit_refs = {i for i in culprit_refs if any(has_kind(v, 'impostor', i) for v in vals)} or culprit_refs
    kinds = sorted({case.refmech(i) for i in culprit_refs})
    # (what is decorated - function / method / class - is in the witness: the key names the reference form only)
    key = "+".join(kinds) + ('' if h[0] == 'ref' or only_imp else f':hint={NODE_NAMES[h[0]]}')
    if variant in ('S', 'PS') and h[0] not in ('ref', 'bar') and not only_imp:
        res = {}
        for mode in ('whole', 'minimal'):
            c3 = copy.copy(c2)
            c3.qmode = {culprit: (mode, 0)}
            res[mode] = differs(pkg, c3, variant, cur_calls, min(inside, len(cur_calls)))
        if res['whole'] != res['minimal']:
            key += ':quoted=' + ('whole' if res['whole'] else 'minimal')
    m_e = run_variant(pkg, c2, 'E', cur_calls, min(inside, len(cur_calls)))
    m_v = run_variant(pkg, c2, variant, cur_calls, min(inside, len(cur_calls)))
    mini, sym = None, symptom(outcome(oe), outcome(ov))
    if outcome(m_e) != outcome(m_v):
        sym = symptom(outcome(m_e), outcome(m_v))
        if not m_v['decor']:
            bad = [j for j, (x, y) in enumerate(zip(m_e['trace'], m_v['trace'])) if x != y]
            only_imp = all(any(has_kind(v, 'impostor') for v in cur_calls[j % len(cur_calls)]['args'] + [cur_calls[j % len(cur_calls)]['ret']])
                           for j in bad)
        mini = dict(source_E=m_e['src'], source_variant=m_v['src'], calls=[call_repr(c) for c in cur_calls],
                    trace_E=outcome(m_e), trace_variant=outcome(m_v),
                    messages=[m for m in m_v['msgs'] if m][:2] or m_v['decor'])
    if only_imp:
        sym += '(object-of-same-named-unrelated-class)'
        key = key.split(':hint=')[0]
    return key, sym, mini


def symptom(te, tv):
    """How the first deviating call of outcome `tv` deviates from the evaluated outcome `te`."""
    if tv[:1] == ('decor',):
        return 'decoration-raised-' + tv[1]
    for x, y in zip(te, tv):
        if x != y:
            if 'ForwardRef' in y:
                return 'forward-reference-exception'
            if y == 'accept':
                return 'accepted-what-evaluated-rejects'
            if x == 'accept' and verdict_class(y) == 'violation':
                return 'rejected-what-evaluated-accepts'
            return 'raised-' + y
    return 'none'


def call_repr(c):
    return short(dict(args=c['args'], ret=c['ret'], kw=c['kw'], violating=c['bad']), 400)


def verdict_class(v):
    if v == 'accept':
        return 'accept'
    if v.endswith('Violation'):
        return 'violation'
    return 'other'


def diff_case(rng, idx, stream, forced=None):
    res = dict(counts={}, findings=[], witness=None, distinct=None)
    cnt = res['counts']

    def count(k, n=1):
        cnt[k] = cnt.get(k, 0) + n
    uid = f'{stream[0]}{idx}'
    if forced is not None:
        case = forced(uid)
    else:
        case = gen_case(rng, uid)
        fill_hints(rng, case)
        case.preload = rng.random() < .3
    calls = gen_calls(rng, case)
    inside = 0
    if case.a:
        inside = rng.choice([0, 0, rng.randint(1, len(calls)), len(calls)])
    res['distinct'] = (stream, case.signature())
    pkg = Pkg(uid)
    try:
        oe = run_variant(pkg, case, 'E', calls, inside)
        if oe['decor']:
            count('invalid_reference_programs(info)')
            count('invalid_E.' + oe['decor'][0])
            res['witness'] = dict(source_E=oe['src'], decor=oe['decor'])
            return res
        count('diff_cases')
        count('placement.' + case.placement())
        count(f'depth.functions={case.a}.classes={case.b}')
        for i in case.used_refs():
            count('refkind.' + case.refkind(i))
        for p in case.positions():
            for k in nodes_in(case.hint_at(p)):
                count('hintnode.' + NODE_NAMES[k])
            count('quoting.' + case.qmode[p][0])
        if inside:
            count('closure_calls_inside_enclosing_frame', inside)
        if case.a and inside < len(calls):
            count('closure_calls_after_enclosing_frame_returned', len(calls) - inside)
        for v in oe['trace']:
            count('verdict_E.' + verdict_class(v))
        for j, c in enumerate(calls):
            exp = all(h is None or conforms(h, v, case) for (pn, h, d), v in zip(case.params, c['args'])) and (
                case.ret is None or conforms(case.ret, c['ret'], case))
            if exp != (oe['trace'][j] == 'accept'):
                count('reference_disagrees_with_harness_predicate(info)')
        outs = {}
        for variant in ('S', 'P', 'PS'):
            ov = outs[variant] = run_variant(pkg, case, variant, calls, inside)
            count('calls_compared', len(calls))
            count('variants_compared.' + variant)
            if ov['decor']:
                count('decoration_raised.' + variant)
            for v in ov['trace']:
                count(f'verdict_{variant}.' + verdict_class(v))
            if outcome(ov) != outcome(oe):
                count('variant_differs_from_evaluated.' + variant)
        # PS (quoted source under the __future__ import) is keyed only when neither S nor P alone deviates
        # and one key covers S and P when both deviate identically
        report = [v for v in ('S', 'P') if outcome(outs[v]) != outcome(oe)]
        vlabel = dict(VARIANT_NAMES)
        if len(report) == 2:
            vlabel['S'] = vlabel['P'] = 'string-and-postponed'
            if outcome(outs['S']) == outcome(outs['P']):
                report = ['S']
        if not report and outcome(outs['PS']) != outcome(oe):
            report = ['PS']
        for variant in report:
            ov = outs[variant]
            mech, sym, mini = classify(pkg, case, variant, calls, inside, oe, ov)
            if ov['decor']:
                key = f'decoration-raised:{ov["decor"][0]}:{vlabel[variant]}:{mech}'
                what = (f'{case.placement()}: variant {variant} raised {ov["decor"][0]} while defining / decorating the '
                        f'callable although the evaluated variant decorates and runs: {ov["decor"][1]}')
            else:
                j = next(j for j, (x, y) in enumerate(zip(oe['trace'], ov['trace'])) if x != y)
                key = f'variants-differ:{vlabel[variant]}-vs-evaluated:{mech}:{sym}'
                what = (f'{case.placement()}: call {j} {call_repr(calls[j % len(calls)]) + (" (second invocation of the enclosing function)" if j >= len(calls) else "")}: evaluated variant -> {oe["trace"][j]}, '
                        f'{variant} variant -> {ov["trace"][j]} {ov["msgs"][j]}')
            count('findings_by_decorated_unit.' + case.unit())
            res['findings'].append((key, what))
            if res['witness'] is None:
                res['witness'] = dict(placement=case.placement(), variant=variant, inside_calls=inside,
                                      refkinds=sorted(case.refkind(i) for i in case.used_refs()),
                                      source_E=short(oe['src'], 2500), source_variant=short(ov['src'], 2500),
                                      calls=[call_repr(c) for c in calls], trace_E=outcome(oe),
                                      trace_variant=outcome(ov), minimised=mini)
        if res['witness'] is None:
            res['witness'] = dict(placement=case.placement(), source_S=case.render('S'),
                                  calls=[call_repr(c) for c in calls[:4]], trace_E=oe['trace'])
    finally:
        pkg.close()
    return res


# ---- unresolved names -------------------------------------------------------------------------------
def gen_unres(rng, uid):
    """Case whose reference 0 (module level, plain or dotted through an auxiliary class) stays undefined."""
    case = gen_case(rng, uid, unres=True)
    D = ('ref', 0)
    core = rng.choice([D, D, ('opt', D), ('bar', [D, ('builtin', 'int')]), ('bar', [('builtin', 'int'), D]),
                       ('union', [('builtin', 'str'), D]), ('ann', D, 'IsTagged'), ('bar', [D, ('none',)])])
    wrap = rng.choice(['id', 'id', 'id', 'list', 'dict', 'tupv', 'tupf', 'seq', 'listlist', 'type'])
    alien = ('alien',)
    if wrap == 'id':
        hint, need, empty = core, alien, None
    elif wrap == 'type':
        hint, need, empty = ('type', D), ('aliencls',), None
    elif wrap == 'tupf':
        hint, need, empty = ('tupf', [('builtin', 'int'), core]), ('tuple', [('int', 1), alien]), None
    elif wrap == 'listlist':
        hint, need, empty = ('list', ('list', core)), ('list', ('list', alien, 1), 1), ('list', None, 0)
    else:
        hint = (wrap, core)
        vk = {'tupv': 'tuplen', 'seq': 'list'}.get(wrap, wrap)
        need, empty = (vk, alien, 1), (vk, None, 0)
    others_cls = [r.idx for r in case.refs[1:] if r.alias is None]
    others = [r.idx for r in case.refs[1:]]
    nparams = rng.choice([1, 2, 2])
    where = rng.choice(list(range(nparams)) + ['ret'])
    for j in range(nparams):
        h = hint if j == where else gen_hint(rng, others_cls, others, 1, bool(others) and rng.random() < .6)
        case.params.append([f'p{j}', h, None])
    if where == 'ret':
        case.ret = hint
    elif rng.random() < .5:
        case.ret = gen_hint(rng, others_cls, others, 1, bool(others) and rng.random() < .5)
    omitted = False
    if where == nparams - 1 and wrap == 'id' and conforms(core, ('none',), case) and rng.random() < .7:
        case.params[where][2] = 'None'
        omitted = True
    set_qmodes(rng, case)
    return case, where, need, empty, omitted


def unres_case(rng, idx, stream):
    res = dict(counts={}, findings=[], witness=None, distinct=None)
    cnt = res['counts']

    def count(k, n=1):
        cnt[k] = cnt.get(k, 0) + n
    uid = f'{stream[0]}{idx}'
    case, where, need, empty, omitted = gen_unres(rng, uid)
    variant = rng.choice(['S', 'S', 'P', 'PS'])
    define_by = rng.choice(['exec', 'setattr']) if case.refs[0].home[0] == 'scope' else 'exec'
    calls = gen_calls(rng, case)
    place = case.placement()
    res['distinct'] = (stream, variant, define_by, where, case.signature())
    wit = res['witness'] = dict(placement=place, variant=variant, define_by=define_by, undefined_name=case.spell(0, False),
                                position_needing_it=where, events=[])

    def sat_call(**over):
        args = [gen_sat(rng, h, case) for pn, h, d in case.params]
        c = dict(args=args, ret=gen_sat(rng, case.ret, case) if case.ret is not None else ('int', 0), kw=False, bad=None)
        c.update(over)
        return c

    def put(c, v):
        c = dict(c, args=list(c['args']))
        if where == 'ret':
            c['ret'] = v
        else:
            c['args'][where] = v
        return c
    pkg = Pkg(uid)
    try:
        oe = run_variant(pkg, case, 'E', calls)
        if oe['decor']:
            count('invalid_reference_programs(info)')
            return res
        env_e = Env(case, oe['ns'], oe['mod'])
        # the same variant with the name defined later in the module but before any call: deviations it shares are
        # the differential stream's business (reported there), not this history's
        full = copy.copy(case)
        full.refs = [copy.copy(r) for r in case.refs]
        full.refs[0].after = True
        ofull = run_variant(pkg, full, variant, calls)
        env_f = None if ofull['decor'] else Env(full, ofull['ns'], ofull['mod'])
        und = copy.copy(case)
        und.omit = frozenset([0])
        src = wit['source'] = und.render(variant)
        with warnings.catch_warnings():
            warnings.simplefilter('ignore')
            try:
                mod = pkg.load(src, variant)
                ns = mod.get()
            except Exception as e:   # noqa
                count('unres_decoration_raised')
                res['findings'].append((f'decoration-raised:{type(e).__name__}:unresolved-name:{case.placement_key()}',
                                        f'decorating a callable whose hint names the undefined {case.spell(0, False)!r} '
                                        f'raised {type(e).__name__}: {short(str(e), 300)}'))
                return res
            count('unres_cases')
            count('unres_placement.' + place)
            count('unres_variant.' + variant)
            env = Env(und, ns, mod)
            # (1) calls that cannot need the name
            probes = []
            if omitted:
                c = sat_call()
                c['args'] = c['args'][:where]
                probes.append(('defaulted-parameter-omitted', c, None))
            if empty is not None:
                probes.append(('empty-container', put(sat_call(), empty), None))
            if where == 'ret' and case.params[0][1] is not None:
                bad = gen_viol(rng, case.params[0][1], und, imp=False)
                if bad is not None:
                    c = sat_call(ret=need)
                    c['args'][0] = bad
                    probes.append(('earlier-parameter-violates', c, 'E'))
            for why, c, ref in probes:
                exp = 'accept' if ref is None else one_call(env_e, oe['ns']['call'], c, case)[0]
                if ref == 'E' and exp != 'BeartypeCallHintParamViolation':
                    continue    # (premise not met: the evaluated variant does not stop at the parameter)
                got, msg = one_call(env, ns['call'], c, und)
                wit['events'].append((why, call_repr(c), got))
                count('unres_not_needed_checked')
                count('unres_not_needed.' + why)
                if got != exp and env_f is not None and one_call(env_f, ofull['ns']['call'], c, case)[0] == got:
                    count('unres_deviation_shared_with_defined_later_variant(info)')
                elif got != exp:
                    res['findings'].append((f'raised-although-name-not-needed:{why}:{got}',
                                            f'{place}, {variant}: the call {call_repr(c)} cannot need the undefined name '
                                            f'(expected {exp}) but gave {got}: {msg}'))
            # (2) calls that need it - twice
            c = put(sat_call(), need)
            for rep in range(2):
                try:
                    args = [env.real(v) for v in c['args']]
                    ns['call'](*args, r=env.real(c['ret']))
                    got, exc = 'accept', None
                except Exception as e:   # noqa
                    got, exc = type(e).__name__, e
                wit['events'].append(('needs-name', call_repr(c), got))
                count('unres_needed_calls_checked')
                if exc is not None and isinstance(exc, FWD_FAMILY):
                    count('unres_forward_reference_exceptions')
                    count('unres_exception.' + got)
                    if case.spell(0, False) not in str(exc):
                        count('unres_forward_reference_exception_about_another_name(info)')
                else:
                    got_k = 'violation' if verdict_class(got) == 'violation' else got
                    res['findings'].append((f'unresolved-name-wrong-exception:{got_k}:{case.placement_key()}',
                                            f'{variant}: call {call_repr(c)} needs the undefined {case.spell(0, False)!r} '
                                            f'(attempt {rep + 1}) but gave {got} {short(str(exc), 260) if exc else ""} '
                                            f'instead of a forward-reference exception'))
                    break
            # (3) define the name, same decorated callable
            r0 = case.refs[0]
            if define_by == 'setattr':
                setattr(mod, r0.name, type(r0.name, (), {'__module__': mod.__name__, '__qualname__': r0.name}))
            else:
                exec(compile('\n'.join(case.refdef(r0)) + '\n', mod.__file__, 'exec'), mod.__dict__)
            env2 = Env(case, ns, mod)
            trace, msgs = [], []
            for c in calls:
                v, m = one_call(env2, ns['call'], c, case)
                trace.append(v)
                msgs.append(m)
            count('unres_then_resolved_scenarios')
            count('unres_calls_after_definition', len(calls))
            count('unres_define_by.' + define_by)
            for v in trace:
                count('unres_verdict_after.' + verdict_class(v))
            wit['trace_E'], wit['trace_after_definition'] = oe['trace'], trace
            wit['calls'] = [call_repr(c) for c in calls]
            # a deviating call is this history's only if the defined-later variant does not deviate the same way
            tf = ofull['trace'] if env_f is not None else [None] * len(trace)
            mine = [i for i, (x, y, z) in enumerate(zip(oe['trace'], trace, tf)) if x != y and y != z]
            if trace != oe['trace'] and not mine:
                count('unres_deviation_shared_with_defined_later_variant(info)')
            elif mine:
                j = mine[0]
                try:
                    fwd = issubclass(getattr(roar, trace[j], object), FWD_FAMILY)
                except TypeError:
                    fwd = False
                only_imp = all(any(has_kind(v, 'impostor') for v in calls[i]['args'] + [calls[i]['ret']]) for i in mine)
                sym = symptom((oe['trace'][j],), (trace[j],)) + (
                    '(object-of-same-named-unrelated-class)' if only_imp else '')
                head = 'still-failing-after-definition' if fwd else f'differs-after-definition:{sym}'
                key = f'{head}:{case.refmech(0).split(":")[0]}-name'
                res['findings'].append((key, f'after defining {case.spell(0, False)!r} ({define_by}) call {j} '
                                             f'{call_repr(calls[j])}: evaluated -> {oe["trace"][j]}, {variant} -> '
                                             f'{trace[j]} {msgs[j]}'))
    finally:
        pkg.close()
    return res


# ---- directed programs ------------------------------------------------------------------------------
def _directed(a, b, deco, refs, params, ret, qmode='whole'):
    def build(uid):
        case = Case(uid, a, b, deco)
        for j, (home, after, bare) in enumerate(refs):
            aux = (f'A{uid}x{j}',) if home[0] == 'aux' else ()
            case.refs.append(Ref(j, f'R{uid}x{j}', home, after, bare=bare, auxpath=aux))
        case.params = [[f'p{j}', h, None] for j, h in enumerate(params)]
        case.ret = ret
        for p in case.positions():
            case.qmode[p] = (qmode, 0)
        return case
    return build


R0, NONE = ('ref', 0), ('none',)
DIRECTED = [
    _directed(0, 1, 'direct', [(('scope', 1), True, False)], [('bar', [R0, NONE])], None),     # 'C.Inner | None'
    _directed(0, 1, 'direct', [(('scope', 1), False, False)], [R0], R0),                       # 'C.Inner' bare
    _directed(0, 1, 'class', [(('scope', 1), True, False)], [('bar', [R0, NONE])], R0),
    _directed(0, 1, 'direct', [(('self', 1), False, True)], [('list', R0)], R0, 'minimal'),    # -> 'K'
    _directed(0, 2, 'direct', [(('self', 2), False, True)], [R0], ('opt', R0)),                # -> 'Root.K'
    _directed(0, 0, 'direct', [(('scope', 0), True, True)], [('list', ('bar', [R0, NONE]))], R0),
    _directed(0, 0, 'direct', [(('aux', 0), True, True)], [('opt', R0)], ('dict', R0), 'minimal'),
    _directed(1, 0, 'direct', [(('scope', 1), True, True)], [R0], ('opt', R0)),
    _directed(2, 0, 'direct', [(('scope', 1), False, True)], [('type', R0)], ('list', R0), 'minimal'),
    _directed(1, 1, 'class', [(('scope', 1), True, True)], [R0], ('tupv', R0)),
    _directed(0, 1, 'direct', [(('scope', 1), True, True)], [R0], None),                       # bare 'Inner' after
]


def absorb(W, stream, idx, res):
    for k, n in res['counts'].items():
        W.count(k, n)
    seen = set()
    for key, what in res['findings']:
        if key in seen:
            continue
        seen.add(key)
        W.violation(key, what, stream, idx, res['witness'])


def main():
    W = Worker('C07', RULE, assumptions=[
        'variant E is the reference: a method whose hints go through the class being defined (self-references, dotted '
        'references through the root class) is defined after the root class and attached to it; every other definition '
        'is only reordered',
        'a reference is spelled the way lexical scoping would resolve it once every definition is complete (bare for '
        'module / enclosing-function / own-class-body names, dotted from the root class otherwise)',
        'containers hold n copies of one item, so the verdict does not depend on the item the sampler draws',
        'a call "needs" an undefined name when the value at that position can only be judged by the named class (an '
        'instance of an unrelated class where the class is expected, one level of container deep at most two); a call '
        '"cannot need" it when the parameter is defaulted and omitted, the container is empty, or an earlier parameter '
        'already violates its own resolvable hint and the name is only in the return hint',
        'warnings emitted at decoration are ignored'])
    limit = 400000 if W.quick else 20000000

    # Mechanism keys: the fine-grained key (kept in the description) is reduced to
    # (reference spelling family, where the head name is visible when the callable is
    # decorated); outcome, placement and hint shape are dropped so that one mechanism is
    # one key, while a reference that *is* visible at decoration keeps a key of its own.
    import re as _re
    _fine_violation = W.violation

    def _coarse(key):
        if key.startswith(('harness', 'decoration-raised')):
            return key
        head = _re.search(r'head-[a-z-]+', key)
        head = head.group(0) if head else None
        if key.startswith('unresolved-name-wrong-exception:violation'):
            return 'unresolved-name-raises-violation-instead-of-forward-reference-exception'
        if 'only-with-several-annotations-together' in key:
            return 'several-string-annotations-together'
        if 'after-definition' in key:
            fam = 'dotted' if 'dotted' in key else 'alias' if 'alias' in key else 'bare'
            sym = ('forward-reference-exception' if key.startswith('still-failing') or 'forward-reference-exception' in key
                   else 'accepts-same-named-impostor' if 'unrelated-class' in key
                   else 'accepts-nonconforming' if 'accepted-what' in key
                   else 'rejects-conforming' if 'rejected-what' in key else 'raises-other')
            return f'{fam}:differs-after-definition:{sym}'
        fam = 'dotted' if ':dotted:' in key else 'alias' if 'alias-bare:' in key else 'bare' if ('bare:' in key) else None
        if fam and head:
            # the symptom stays in the key: one mechanism that today only raises the forward-reference exception or
            # accepts a same-named impostor must not hide a change that makes it reject conforming objects
            sym = key.rsplit(':', 1)[-1]
            if sym.startswith('forward-reference-exception'):
                sym = 'forward-reference-exception'
            elif sym.startswith('accepted-what-evaluated-rejects'):
                sym = 'accepts-same-named-impostor' if 'unrelated-class' in sym else 'accepts-nonconforming'
            elif sym.startswith('rejected-what-evaluated-accepts'):
                sym = 'rejects-conforming'
            elif sym.startswith('raised-'):
                sym = 'raises-' + sym[len('raised-'):]
            return f'{fam}:{head}' + (':' + sym if sym else '')
        return key

    def _violation(key, what, stream, index, witness=None):
        return _fine_violation(_coarse(key), f'[{key}] {what}', stream, index, witness)
    W.violation = _violation

    if W.is_lead():
        names = sorted(n for n in dir(roar) if 'ForwardRef' in n and isinstance(getattr(roar, n), type)
                       and issubclass(getattr(roar, n), Exception) and not issubclass(getattr(roar, n), Warning))
        for n in names:
            c = getattr(roar, n)
            W.add('forward_reference_exception_hierarchy', f'{n} < ' + ' < '.join(b.__name__ for b in c.__mro__[1:4]))
            if not issubclass(c, FWD_FAMILY) and W.replay_case is None:
                W.violation('forward-reference-exception-outside-documented-family:' + n,
                            f'{n} derives from neither BeartypeCallHintForwardRefException nor '
                            f'BeartypeDecorHintForwardRefException', 'directed', 0, None)
        idxs = [int(W.replay_case['index'])] if W.replay_case else range(len(DIRECTED))
        for i in idxs:
            res = diff_case(W.rng('directed', i), i, 'directed', forced=DIRECTED[i])
            W.evaluate(res['distinct'])
            W.count('directed_cases')
            absorb(W, 'directed', i, res)

    for stream, fn, frac in (('unres', unres_case, .3), ('diff', diff_case, 1.0)):
        for idx in W.cases(stream, limit, frac):
            rng = W.rng(stream, idx)
            try:
                res = fn(rng, idx, stream)
            except Exception:   # noqa
                W.violation('harness-error', traceback.format_exc()[-1500:], stream, idx, None)
                W.count('harness_errors')
                continue
            W.evaluate(res['distinct'])
            if stream == 'diff' and len(W.samples) < 2 and res['witness'] and 'source_S' in res['witness']:
                W.sample(dict(placement=res['witness']['placement'], source_S=short(res['witness']['source_S'], 900),
                              calls=res['witness']['calls'][:3]))
            absorb(W, stream, idx, res)

    W.need('directed_cases', len(DIRECTED))
    W.need('diff_cases', 400)
    W.need('calls_compared', 6000)
    for v in ('S', 'P', 'PS'):
        W.need('variants_compared.' + v, 400)
        W.need(f'verdict_{v}.violation', 300)
        W.need(f'verdict_{v}.accept', 300)
    W.need('verdict_E.violation', 300)
    W.need('verdict_E.accept', 300)
    for p in ('module-function', 'closure', 'method:class-decorated', 'method:method-decorated',
              'method-nested:class-decorated', 'method-nested:method-decorated', 'method-nested:inner-class-decorated',
              'local-class-method:class-decorated', 'local-class-method:method-decorated'):
        W.need('placement.' + p, 15)
    for k in ('module:before', 'module:after', 'enclosing-local:before', 'enclosing-local:after',
              'outer-enclosing-local:before', 'outer-enclosing-local:after', 'own-class-body-bare:before',
              'own-class-body-bare:after', 'own-class-body-dotted:before', 'own-class-body-dotted:after',
              'outer-class-body-dotted:after', 'self', 'self-nested-dotted', 'enclosing-class', 'aux-dotted-module:before',
              'aux-dotted-module:after', 'aux-dotted-local:after', 'alias-module:after', 'alias-enclosing-local:before'):
        W.need('refkind.' + k, 8)
    for k in ('Optional', 'Union', 'bar-union', 'list', 'dict', 'tuple-variadic', 'tuple-fixed', 'type', 'Literal',
              'Annotated', 'Callable', 'Sequence'):
        W.need('hintnode.' + k, 20)
    for q in ('whole', 'minimal', 'random'):
        W.need('quoting.' + q, 100)
    W.need('closure_calls_inside_enclosing_frame', 100)
    W.need('closure_calls_after_enclosing_frame_returned', 100)
    W.need('unres_cases', 150)
    W.need('unres_needed_calls_checked', 150)
    W.need('unres_forward_reference_exceptions', 50)
    W.need('unres_not_needed_checked', 40)
    W.need('unres_then_resolved_scenarios', 100)
    W.need('unres_verdict_after.violation', 100)
    W.need('unres_verdict_after.accept', 100)
    W.finish()


guarded(main)

"""C09 - call-time checking cost does not grow with container size (spy
monitors counting item reads, DESIGN §4 C09)."""
import os
import sys

sys.path.insert(0, os.path.dirname(os.path.dirname(os.path.abspath(__file__))))
from vlib.worker import Worker, guarded, short, use_repo

use_repo()
from vlib import draws

draws.install()
from vlib import engine, hints, spies   # noqa: E402
import beartype   # noqa: E402

RULE = ('container-bearing hints built from 1-3 nested levels (sequence / reiterable / quasi-iterable / mapping '
        'value / mapping key families, optionally wrapped in Optional, Annotated or a fixed tuple) x spy objects of '
        'identical structure whose one scaled level has sizes {1,2,10,1000,N} x conforming / every-leaf-violating / '
        'only-the-sampled-item-violating x draws x six entry points under O1 (is_random on and off); the multiset of '
        'spy events per nesting level is compared across sizes and bounded; distinct by (hint, scaled level, variant, '
        'entry point); all are non-trivial (every case reads a container)')

LEVELS = {
    # name: (src format, kind, spy factories taking (items, tag))
    'list': ('list[{}]', 'seq', ['SpyList']),
    'List': ('List[{}]', 'seq', ['SpyList']),
    'Sequence': ('Sequence[{}]', 'seq', ['SpyList', 'SpyTuple', 'PySequence']),
    'MutableSequence': ('MutableSequence[{}]', 'seq', ['SpyList']),
    'tuplevar': ('tuple[{}, ...]', 'seq', ['SpyTuple']),
    'set': ('set[{}]', 'hashed', ['SpySet']),
    'frozenset': ('frozenset[{}]', 'hashed', ['SpyFrozenSet']),
    'AbstractSet': ('AbstractSet[{}]', 'hashed', ['SpySet', 'SpyFrozenSet', 'PySet']),
    'MutableSet': ('MutableSet[{}]', 'hashed', ['SpySet']),
    'Collection': ('Collection[{}]', 'reit', ['SpyList', 'SpyTuple', 'SpyDeque', 'PyCollection', 'PySequence']),
    'deque': ('deque[{}]', 'reit', ['SpyDeque']),
    'Iterable': ('Iterable[{}]', 'quasi', ['SpyList', 'SpyTuple', 'SpyDeque', 'PyCollection', 'PySequence']),
    'Container': ('Container[{}]', 'quasi', ['SpyList', 'SpyDeque', 'PyCollection']),
    'Reversible': ('Reversible[{}]', 'quasi', ['SpyList', 'SpyDeque', 'PySequence']),
    'dictval': ('dict[str, {}]', 'mapval', ['SpyDict']),
    'Mappingval': ('Mapping[str, {}]', 'mapval', ['SpyDict', 'SpyOrderedDict', 'PyMapping', 'SpyDefaultDict']),
    'MutableMappingval': ('MutableMapping[str, {}]', 'mapval', ['SpyDict', 'SpyOrderedDict']),
    'OrderedDictval': ('OrderedDict[str, {}]', 'mapval', ['SpyOrderedDict']),
    'defaultdictval': ('defaultdict[str, {}]', 'mapval', ['SpyDefaultDict']),
    'dictkey': ('dict[{}, int]', 'mapkey', ['SpyDict']),
    'Mappingkey': ('Mapping[{}, int]', 'mapkey', ['SpyDict', 'PyMapping']),
    'Counter': ('Counter[{}]', 'mapkey', ['SpyCounter']),
}
LEAVES = {'int': (lambda i: i, lambda i: 's%d' % i), 'str': (lambda i: 's%d' % i, lambda i: i),
          # ignorable leaves (nothing violates them): dict[str, Any], Mapping[object, int] ... still have a checked side
          'Any': (lambda i: i, None), 'object': (lambda i: 's%d' % i, None),
          # a union leaf whose conforming items match only the LAST member (each earlier member gets to look first)
          'Union[int, list[str], frozenset[str]]': (lambda i: frozenset({'s%d' % i}), lambda i: 1.5 + i),
          'Union[bytes, tuple[int, ...], dict[str, int]]': (lambda i: {'k': i}, lambda i: 's%d' % i)}
READ_BOUND = {'seq': 1, 'hashed': 1, 'reit': 1, 'quasi': 1, 'mapval': 2, 'mapkey': 2}
NONCOLL = [
    ('Iterable[int]', 'PyIterable'), ('Iterable[int]', 'PyIterator'), ('Iterable[int]', 'generator'),
    ('Iterator[int]', 'PyIterator'), ('Iterator[int]', 'generator'), ('Generator[int, None, None]', 'generator'),
    ('Container[int]', 'PyContainer'), ('Reversible[int]', 'PyReversible'),
    ('Generator[int, None, None]', 'PyGenerator'),
    ('Iterable[int]', 'PySizedIterator'), ('Iterator[int]', 'PySizedIterator'), ('Iterable[int]', 'PySizedIterable'),
]


def gen_shape(rng):
    nlev = rng.choice((1, 1, 2, 2, 3))
    names = []
    for d in range(nlev):
        last = d == nlev - 1
        pool = [n for n, (_, kind, _) in LEVELS.items()
                if last or kind not in ('hashed', 'mapkey')]   # hashed levels hold leaves only
        names.append(rng.choice(pool))
    leaf = rng.choice(['int', 'int', 'str', 'str', 'Any', 'object', 'Union[int, list[str], frozenset[str]]',
                       'Union[bytes, tuple[int, ...], dict[str, int]]'])
    if LEVELS[names[-1]][1] in ('hashed', 'mapkey') and 'dict[str, int]' in leaf:
        leaf = 'Union[int, list[str], frozenset[str]]'       # (items of hashed levels must be hashable)
    wrap = rng.choice((None, None, 'optional', 'annotated', 'tuple'))
    return names, leaf, wrap


def shape_src(names, leaf, wrap):
    s = leaf
    for n in reversed(names):
        s = LEVELS[n][0].format(s)
    if wrap == 'optional':
        s = f'Optional[{s}]'
    elif wrap == 'annotated':
        s = f"Annotated[{s}, 'meta']"
    elif wrap == 'tuple':
        s = f'tuple[{s}, int]'
    return s


def build(names, leaf, factories, sizes, bad, level=0, bad_index=None):
    """Object for levels[level:]; sizes[level] items; `bad` = every leaf violates."""
    name = names[level]
    kind = LEVELS[name][1]
    n = sizes[level]
    tag = f'L{level}'
    fac = factories[level]
    good, wrong = LEAVES[leaf]
    mk = wrong if bad else good
    if level == len(names) - 1:
        items = [mk(i) for i in range(n)]
        if bad_index is not None and level == 0:
            items = [good(i) for i in range(n)]
            items[bad_index] = wrong(bad_index)
    else:
        inner = build(names, leaf, factories, sizes, bad and bad_index is None, level + 1)
        items = [inner] * n
        if bad_index is not None and level == 0:
            items = list(items)
            items[bad_index] = build(names, leaf, factories, sizes, True, level + 1)
    if kind == 'mapval':
        data = {'k%d' % i: v for i, v in enumerate(items)}
    elif kind == 'mapkey':
        data = {k: (1 if name != 'Counter' or True else 1) for k in items}
    else:
        data = items
    cls = getattr(spies, fac)
    if fac == 'SpyDefaultDict':
        return cls(int, data, _tag=tag)
    if fac == 'PyMapping':
        return cls(data, _tag=tag)
    if fac == 'SpyCounter':
        c = cls(_tag=tag)
        for k in data:
            dict.__setitem__(c, k, 1)
        return c
    return cls(data, _tag=tag)


_fwd_seq = [0]


class FwdSubject:
    """The hint reached through a forward reference: a decorated callable annotated by the *name* of a module
    attribute bound to the hint only after decoration (checked, and described, through the reference proxy)."""
    ENTRY_POINTS = ('param', 'return')

    def __init__(self, hint, cs):
        from vlib import hintenv
        from beartype.roar import BeartypeHintViolation
        self.viol = BeartypeHintViolation
        self.prep_error = {}
        self.cs = cs
        _fwd_seq[0] += 1
        name = f'C09Later{os.getpid()}_{_fwd_seq[0]}'

        def fp(a):
            return None

        def fr(a):
            return a
        fp.__annotations__ = {'a': name}
        fr.__annotations__ = {'return': name}
        self.f = {}
        for where, f in (('param', fp), ('return', fr)):
            f.__module__ = 'vlib.hintenv'
            try:
                self.f[where] = beartype.beartype(conf=cs.conf())(f)
            except Exception as e:   # noqa
                self.prep_error[where] = e
        setattr(hintenv, name, hint)          # ... defined later

    def run(self, ep, x, r):
        with draws.armed(r):
            try:
                self.f[ep](x)
                return engine.Outcome('accept')
            except self.viol as e:
                return engine.Outcome('reject', exc=e)
            except (KeyboardInterrupt, SystemExit):
                raise
            except BaseException as e:   # noqa
                return engine.Outcome('error', exc=e)


def main():
    W = Worker('C09', RULE, assumptions=[
        'reads = items produced by iteration plus __getitem__ calls, as logged by the spy containers',
        '__len__, isinstance and one repr() per rejected object are not reads (as the property states)',
        'the describing (rejecting) path of die_if_unbearable / decorated calls is held to size-independence '
        'and to a loose constant (<= 4 reads per level), the deciding path to the tight per-level bound'])
    quick = W.quick
    big = 20000 if quick else 200000
    SIZES = (1, 2, 10, 1000, big)
    env = hints.env()
    limit = 100000 if quick else 5000000

    # ---- non-collection iterables are not iterated at all (lead worker) ----------
    if W.is_lead():
        for i, (hsrc, fac) in enumerate(NONCOLL):
            for ctx in ('root', 'tuple-ok', 'tuple-bad', 'optional'):
                src = {'root': hsrc, 'tuple-ok': f'tuple[{hsrc}, int]', 'tuple-bad': f'tuple[{hsrc}, int]',
                       'optional': f'Optional[{hsrc}]'}[ctx]
                hint = eval(src, env)
                for cs in (engine.ConfSpec(), engine.ConfSpec(is_random=False)):
                    subj = engine.Subject(hint, cs)
                    if subj.prep_error:
                        where, e = next(iter(subj.prep_error.items()))
                        W.violation('error:' + engine.exc_site(e), f'preparing {src}: {e!r}', 'directed', i, dict(hint=src))
                        continue
                    for ep in engine.ENTRY_POINTS:
                        for n in (0, 3, 1000):
                            items = list(range(n))
                            o = (spies.make_generator(items, 'NC') if fac == 'generator'
                                 else getattr(spies, fac)(items, _tag='NC'))
                            x = {'root': o, 'optional': o, 'tuple-ok': (o, 1), 'tuple-bad': (o, 'bad')}[ctx]
                            spies.reset()
                            out = subj.run(ep, x, 7)
                            evs = [e for e in spies.LOG if e[0] == 'NC' and e[1] not in ('repr', 'len')]
                            W.evaluate(('nc', src, fac, ctx, ep, n))
                            W.count('noncollection_checks')
                            if out.verdict == 'error':
                                W.violation('error:' + engine.exc_site(out.exc),
                                            f'{ep} raised {type(out.exc).__name__} for {src} on a non-collection {fac}: {short(out.exc, 200)}',
                                            'directed', i, dict(hint=src, obj=fac, entry_point=ep, ctx=ctx))
                                break
                            if evs:
                                W.violation('noncollection-touched',
                                            f'{ep}: a non-collection {fac} was touched while checking {src}: {evs[:5]}',
                                            'directed', i, dict(hint=src, obj=fac, entry_point=ep, events=evs[:10], ctx=ctx))
                                break

    for idx in W.cases('shape', limit):
        rng = W.rng('shape', idx)
        names, leaf, wrap = gen_shape(rng)
        src = shape_src(names, leaf, wrap)
        try:
            hint = eval(src, env)
        except Exception:
            continue
        factories = [rng.choice(LEVELS[n][2]) for n in names]
        scaled = rng.randrange(len(names))
        kinds = [LEVELS[n][1] for n in names]
        variant = rng.choice(('ok', 'allbad', 'onebad', 'sibling-bad'))
        if LEAVES[leaf][1] is None and variant in ('allbad', 'onebad'):
            variant = 'sibling-bad'          # an ignorable leaf has no violating values: the culprit is a sibling
        if variant == 'sibling-bad' and wrap != 'tuple':
            # a conforming container next to the real culprit: tuple[<shape>, int] with (container, 'bad')
            wrap = 'tuple'
            src = shape_src(names, leaf, wrap)
            hint = eval(src, env)
        if variant == 'onebad' and not (scaled == 0 and kinds[0] in ('seq',) or kinds[0] == 'quasi' and scaled == 0):
            variant = 'allbad'
        if variant == 'onebad' and factories[0] not in ('SpyList', 'SpyTuple', 'PySequence'):
            variant = 'allbad'
        cs = engine.ConfSpec(**({'is_random': False} if rng.random() < .3 else {}))
        # one case in five reaches the hint through a forward reference resolved at call time
        fwd = variant != 'onebad' and rng.random() < .2
        subj = FwdSubject(hint, cs) if fwd else engine.Subject(hint, cs)
        entry_points = FwdSubject.ENTRY_POINTS if fwd else engine.ENTRY_POINTS
        if fwd:
            src = f"'Later' (forward reference to {src})"
            W.count('forward_referenced_cases')
        if subj.prep_error:
            where, e = next(iter(subj.prep_error.items()))
            W.violation('error:' + engine.exc_site(e), f'preparing {src}: {e!r}', 'shape', idx, dict(hint=src))
            continue
        W.add('level_kinds', '/'.join(kinds))
        W.add('factories', '/'.join(factories))
        W.add('variants', variant)
        r = rng.choice((0, 1, 5, 2**31 + 3, rng.getrandbits(32)))
        stop = False
        for ep in entry_points:
            if stop:
                break
            vecs = {}
            verds = {}
            for n in SIZES:
                sizes = [3] * len(names)
                sizes[scaled] = n
                bi = None
                if variant == 'onebad':
                    bi = (r % n) if cs.is_random else 0
                obj = build(names, leaf, factories, sizes, variant == 'allbad', 0, bi)
                x = (obj, 'bad' if variant == 'sibling-bad' else 1) if wrap == 'tuple' else obj
                spies.reset()
                out = subj.run(ep, x, r)
                vec = spies.vector()
                W.count('checks')
                W.count('spy_events', len(spies.LOG))
                if out.verdict == 'error':
                    W.violation('error:' + engine.exc_site(out.exc),
                                f'{ep} raised {type(out.exc).__name__}: {src} {short(out.exc, 200)}', 'shape', idx,
                                dict(hint=src, factories=factories, entry_point=ep, size=n))
                    stop = True
                    break
                vecs[n], verds[n] = vec, out.verdict
                W.count('reads_observed', spies.reads())
                # absolute bounds
                deciding = ep.endswith('is_bearable') or out.verdict == 'accept'
                for lvl, kind in enumerate(kinds):
                    rd = spies.reads(f'L{lvl}')
                    # (through a reference proxy the object is checked once to decide and again, by the proxy's own
                    # is_bearable / describing hooks, to explain: a larger constant, still no function of the size)
                    bound = (READ_BOUND[kind] if deciding else 4) * (4 if fwd else 1)
                    # a level below a level read k times can itself be read k times as often
                    mult = 1
                    if not deciding:
                        mult = 1
                    if rd > bound * mult * (1 if deciding else 3 ** lvl):
                        W.violation('too-many-reads' + ('' if deciding else ':describing'),
                                    f'{ep}: {rd} item reads at nesting level {lvl} ({kind}) of {src} '
                                    f'(size {n}, {out.verdict}); bound {bound}; events={vec}', 'shape', idx,
                                    dict(hint=src, factories=factories, entry_point=ep, size=n, variant=variant,
                                         events={str(k): v for k, v in vec.items()}))
                        stop = True
                        break
                if stop:
                    break
            if stop:
                break
            W.evaluate((src, tuple(factories), scaled, variant, ep))
            if len(set(verds.values())) > 1:
                W.violation('verdict-depends-on-size', f'{ep}: verdicts {verds} for {src} variant {variant}', 'shape', idx,
                            dict(hint=src, factories=factories, entry_point=ep, verdicts=verds, variant=variant))
                break
            base = vecs[SIZES[0]]
            for n in SIZES[1:]:
                if vecs[n] != base:
                    W.violation('events-grow-with-size',
                                f'{ep}: spy events differ between size {SIZES[0]} and {n} for {src} ({variant}, '
                                f'{verds[n]}): {base} vs {vecs[n]}', 'shape', idx,
                                dict(hint=src, factories=factories, entry_point=ep, variant=variant, scaled_level=scaled,
                                     small={str(k): v for k, v in base.items()},
                                     large={str(k): v for k, v in vecs[n].items()}))
                    stop = True
                    break
            W.count('size_sweeps')
            W.count('sweeps.' + next(iter(verds.values())))
        if len(W.samples) < 3:
            W.sample(dict(hint=src, spies=factories, scaled_level=scaled, variant=variant, sizes=list(SIZES),
                          conf=cs.kw, draw=r))

    W.need('forward_referenced_cases', 20)
    W.need('size_sweeps', 300)
    W.need('sweeps.accept', 50)
    W.need('sweeps.reject', 50)
    W.need('reads_observed', 1000)
    W.need('spy_events', 5000)
    W.finish()


guarded(main)

"""C16 - hooked and unhooked bytecode caches never mix; cached bytecode is never
stale (cross-process history runner + .pyc decoder + in-run concurrent import
plans with injected delays inside the loader's patch window).  DESIGN §4 C16.

Every interpreter run is a child process with PYTHONDONTWRITEBYTECODE unset and
PYTHONPYCACHEPREFIX pointing below the worker's temporary directory, so /repo
stays free of bytecode."""
import json
import marshal
import os
import shutil
import subprocess
import sys
import tempfile
import textwrap
import types

sys.path.insert(0, os.path.dirname(os.path.dirname(os.path.abspath(__file__))))
from vlib.worker import REPO, Worker, guarded, short

RULE = ('histories of 2-5 interpreter runs over one package source tree, each run under a hook configuration from '
        '{off, default, claw_is_pep526=False, each decorator placement for functions and for types, custom violation '
        'exception, custom violation warning, strategies, tower, and the full product of the three AST-shaping options '
        'with a fourth, non-shaping one (none / is_pep557_fields / strategy O0 / is_pep484_tower / violation_type=warning / hint_overrides)}, consecutive runs often one option '
        'apart or of the same AST shape, with optional source edits between runs; after every run the behaviour '
        'report of the package self-test must equal the report of the same (configuration, source) on an empty cache, '
        'and every .pyc written must be "transformed iff marked"; plus single runs in which 2-8 threads import hooked '
        'and unhooked packages concurrently with delays injected inside BeartypeSourceFileLoader.get_code; distinct by '
        '(configuration sequence, edits); non-trivial = at least two different configurations in the history')

CONFIGS = {
    'off': None,
    'default': '{}',
    'no526': "dict(claw_is_pep526=False)",
    'func-first': "dict(claw_decor_place_func=BeartypeDecorPlace.FIRST)",
    'func-last': "dict(claw_decor_place_func=BeartypeDecorPlace.LAST)",
    'type-first': "dict(claw_decor_place_type=BeartypeDecorPlace.FIRST)",
    'viol-exc': "dict(violation_type=MyViolation)",
    'viol-warn': "dict(violation_type=MyWarning)",
    # strategies: O0 disables every check (the module may as well be compiled untransformed - but then not under
    # the marker that a checking configuration reuses)
    'strategy-O0': "dict(strategy=BeartypeStrategy.O0)",
    'strategy-On': "dict(strategy=BeartypeStrategy.On)",
    'tower': "dict(is_pep484_tower=True)",
}
# options that shape the compiled AST (the others are looked up at run time)
AST_SHAPE = {'off': 'off', 'default': 'd', 'no526': 'no526', 'func-first': 'ff', 'func-last': 'd', 'type-first': 'tf',
             'viol-exc': 'd', 'viol-warn': 'd', 'strategy-O0': 'd', 'strategy-On': 'd', 'tower': 'd'}
# ... and every combination of the three AST-shaping options (two non-default configurations that differ in one of
# them only must not share a cache file either).  For this module (no decorator-hostile decorators) LAST and
# LAST_BEFORE_DECOR_HOSTILE place alike, so the shape keeps FIRST / not-FIRST only.
# A fourth dimension that does NOT shape the AST (it is looked up at run time): two configurations differing in it
# only may share a cache file - as long as the compiled module really does not depend on it.
for _p in (True, False):
    for _f in ('FIRST', 'LAST', 'LAST_BEFORE_DECOR_HOSTILE'):
        for _t in ('FIRST', 'LAST', 'LAST_BEFORE_DECOR_HOSTILE'):
            for _x, _xsrc in (('x0', ''), ('x557', ', is_pep557_fields=True'), ('xO0', ', strategy=BeartypeStrategy.O0'),
                              ('xtow', ', is_pep484_tower=True'), ('xwarn', ', violation_type=MyWarning'),
                              ('xover', ', hint_overrides=BeartypeHintOverrides({float: float | int})')):
                _n = f'p{int(_p)}-f{_f[0] + str(len(_f))}-t{_t[0] + str(len(_t))}-{_x}'
                CONFIGS[_n] = (f"dict(claw_is_pep526={_p}, claw_decor_place_func=BeartypeDecorPlace.{_f}, "
                               f"claw_decor_place_type=BeartypeDecorPlace.{_t}{_xsrc})")
                AST_SHAPE[_n] = f'{"" if _p else "no526"}{"ff" if _f == "FIRST" else ""}{"tf" if _t == "FIRST" else ""}' or 'd'

MOD_V1 = '''
import warnings
RESULT = {}
ORDER = []
def deco(f):
    # is the function handed to this user decorator already a beartype wrapper?
    ORDER.append('func:' + ('beartype-inside' if hasattr(f, '__wrapped__') else 'beartype-outside-or-absent'))
    return f
def cdeco(c):
    ORDER.append('type:' + ('beartype-inside' if hasattr(c.__dict__['m'], '__wrapped__') else 'beartype-outside-or-absent'))
    return c
def cdeco2(c):
    return c
with warnings.catch_warnings(record=True) as _w:
    warnings.simplefilter('always')
    try:
        x: int = 'not an int'
        RESULT['ann'] = 'passed' + ('+warned:' + _w[-1].category.__name__ if _w else '')
    except Exception as e:
        RESULT['ann'] = 'raised:' + type(e).__name__
@deco
def f(a: int) -> int:
    return a
@cdeco
class K:
    def m(self, a: int) -> int:
        return a
with warnings.catch_warnings(record=True) as _w:
    warnings.simplefilter('always')
    try:
        f('x')
        RESULT['call'] = 'passed' + ('+warned:' + _w[-1].category.__name__ if _w else '')
    except Exception as e:
        RESULT['call'] = 'raised:' + type(e).__name__
    try:
        K().m('x')
        RESULT['method'] = 'passed'
    except Exception as e:
        RESULT['method'] = 'raised:' + type(e).__name__
def g(a: float) -> float:
    return a
with warnings.catch_warnings(record=True) as _w:
    warnings.simplefilter('always')
    try:
        g(1)       # accepted under the numeric tower or an override of float only
        RESULT['int-for-float'] = 'passed' + ('+warned:' + _w[-1].category.__name__ if _w else '')
    except Exception as e:
        RESULT['int-for-float'] = 'raised:' + type(e).__name__
import dataclasses
@cdeco2
@dataclasses.dataclass
class Rec:
    n: int
    def m(self, a: int) -> int:
        return a
try:
    Rec('bad')
    RESULT['dataclass-init'] = 'passed'
except Exception as e:
    RESULT['dataclass-init'] = 'raised:' + type(e).__name__
try:
    Rec(1).n = 'bad'
    RESULT['dataclass-set'] = 'passed'
except Exception as e:
    RESULT['dataclass-set'] = 'raised:' + type(e).__name__
RESULT['order'] = ORDER
RESULT['version'] = 1
'''
MOD_V2 = MOD_V1.replace("x: int = 'not an int'", "x: int = 12345").replace("RESULT['version'] = 1", "RESULT['version'] = 2\nEXTRA: str = 'added by the edit'")
MOD_V3 = MOD_V2.replace("RESULT['version'] = 2", "RESULT['version'] = 3\ny: float = 'again bad'")
VERSIONS = {1: MOD_V1, 2: MOD_V2, 3: MOD_V3}

RUNNER = '''
import json, sys
sys.path.insert(0, {repo!r}); sys.path.insert(0, {src!r})
class MyViolation(Exception): pass
class MyWarning(UserWarning): pass
conf_src = {conf!r}
if conf_src is not None:
    from beartype import BeartypeConf, BeartypeDecorPlace, BeartypeHintOverrides, BeartypeStrategy
    from beartype.claw import beartype_package
    beartype_package({pkg!r}, conf=BeartypeConf(**eval(conf_src)))
import importlib
out = {{}}
try:
    m = importlib.import_module({pkg!r} + '.mod')
    out = dict(m.RESULT)
except BaseException as e:
    out = dict(import_raised=type(e).__name__)     # (the message names the package directory)
print('@@' + json.dumps(out, sort_keys=True))
'''

THREAD_RUNNER = '''
import json, sys, threading, time, importlib
sys.path.insert(0, {repo!r}); sys.path.insert(0, {src!r})
sys.setswitchinterval(1e-5)
from beartype import BeartypeConf
from beartype.claw import beartype_package
beartype_package({hooked!r})
delay = {delay!r}
if delay:
    import beartype.claw._importlib._clawimpfileloader as L
    code = L.BeartypeSourceFileLoader.get_code.__code__
    TOOL = 3
    sys.monitoring.use_tool_id(TOOL, 'c16')
    def on_line(c, line):
        time.sleep(delay)          # a pause at every line of get_code: inside the patch window too
    sys.monitoring.register_callback(TOOL, sys.monitoring.events.LINE, on_line)
    sys.monitoring.set_local_events(TOOL, code, sys.monitoring.events.LINE)
names = {names!r}
errs = []
barrier = threading.Barrier(len(names))
def imp(n):
    try:
        barrier.wait()
        importlib.import_module(n)
    except BaseException as e:
        errs.append(n + ':' + type(e).__name__ + ':' + str(e)[:80])
ts = [threading.Thread(target=imp, args=(n,)) for n in names]
[t.start() for t in ts]; [t.join() for t in ts]
res = {{}}
for n in names:
    m = sys.modules.get(n)
    res[n] = dict(getattr(m, 'RESULT', {{}})) if m else None
print('@@' + json.dumps(dict(errors=errs, results=res), sort_keys=True))
'''

INJECTED = ('__beartype__', '__die_if_unbearable_beartype__', '__claw_state_beartype__')


def code_names(co, acc=None):
    acc = set() if acc is None else acc
    acc.update(co.co_names)
    for c in co.co_consts:
        if isinstance(c, types.CodeType):
            code_names(c, acc)
    return acc


def scan_pycs(pyc_root, src_dir, pkg):
    """[(file name, marked?, transformed?)] of the .pyc files of package pkg."""
    out = []
    base = os.path.join(pyc_root, os.path.join(src_dir, pkg).lstrip(os.sep))
    if not os.path.isdir(base):
        return out
    for fn in sorted(os.listdir(base)):
        if not fn.endswith('.pyc') or not fn.startswith('mod'):
            continue
        with open(os.path.join(base, fn), 'rb') as f:
            data = f.read()
        try:
            co = marshal.loads(data[16:])
        except Exception:
            out.append((fn, 'beartype' in fn, None))
            continue
        names = code_names(co)
        out.append((fn, 'beartype' in fn, any(n in names for n in INJECTED)))
    return out


def main():
    W = Worker('C16', RULE, assumptions=[
        'a .pyc "contains the transformation" iff its code objects reference the names the hook injects',
        'reference behaviour = the same (configuration, source) run in a fresh package directory with an empty cache',
        'children run with PYTHONDONTWRITEBYTECODE unset and PYTHONPYCACHEPREFIX below the worker temp dir'])
    quick = W.quick
    limit = 100000 if quick else 5000000
    root = tempfile.mkdtemp(prefix='vc16_')
    src_dir, pyc_dir = os.path.join(root, 'src'), os.path.join(root, 'pyc')
    os.makedirs(src_dir)
    env = dict(os.environ)
    env.pop('PYTHONDONTWRITEBYTECODE', None)
    env['PYTHONPYCACHEPREFIX'] = pyc_dir
    env['PYTHONHASHSEED'] = '0'
    env.pop('PYTHONPATH', None)
    serial = [0]

    def new_pkg(version, modname='mod'):
        serial[0] += 1
        pkg = f'p{W.k}_{serial[0]}'
        os.makedirs(os.path.join(src_dir, pkg))
        open(os.path.join(src_dir, pkg, '__init__.py'), 'w').close()
        write_version(pkg, version)
        return pkg

    def write_version(pkg, version):
        path = os.path.join(src_dir, pkg, 'mod.py')
        with open(path, 'w') as f:
            f.write(VERSIONS[version])
        # a source edit always changes size (the versions differ in length) and bumps mtime
        st = os.stat(path)
        os.utime(path, (st.st_atime + 2 * version, st.st_mtime + 2 * version))

    def run(pkg, confname, optimize=False):
        code = RUNNER.format(repo=REPO, src=src_dir, conf=CONFIGS[confname], pkg=pkg)
        try:
            # (python -O: the interpreter's own optimisation tag joins beartype's marker in the cache file name)
            p = subprocess.run([sys.executable] + (['-O'] if optimize else []) + ['-c', code], env=env, capture_output=True, text=True,
                               timeout=120)
        except subprocess.TimeoutExpired:
            return None
        W.count('interpreter_runs')
        for line in p.stdout.splitlines():
            if line.startswith('@@'):
                return json.loads(line[2:])
        return dict(crashed=p.stderr[-300:])

    cold_cache = {}

    def cold(confname, version, optimize=False):
        # (beartype switches itself off under python -O: the reference is taken under the same interpreter flags)
        key = (confname, version, optimize)
        if key not in cold_cache:
            pkg = new_pkg(version)
            cold_cache[key] = run(pkg, confname, optimize)
            shutil.rmtree(os.path.join(src_dir, pkg), ignore_errors=True)
            W.count('cold_reference_runs')
        return cold_cache[key]

    try:
        # warm beartype's own bytecode once (keeps later runs fast)
        run(new_pkg(1), 'default')

        # two-run histories every run starts with (lead worker): pairs of configurations that share a cache file by
        # design although they differ in something, and pairs that must not share one
        DIRECTED = [('default', 'viol-exc'), ('default', 'tower'), ('viol-warn', 'default'), ('strategy-O0', 'default'),
                    ('default', 'strategy-O0'), ('p1-fL25-tF5-x557', 'p1-fL25-tF5-x0'), ('p1-fL25-tF5-x0', 'p1-fL25-tF5-x557'),
                    ('p1-fL25-tL4-xO0', 'p1-fL25-tL4-x0'), ('no526', 'default'), ('func-first', 'default'), ('type-first', 'default'),
                    ('off', 'default'), ('default', 'off'), ('strategy-On', 'viol-warn')]

        def history_cases():
            if W.replay_case is not None:
                if W.replay_case.get('stream') == 'directed':
                    i = int(W.replay_case['index'])
                    yield 'directed', i, DIRECTED[i]
                for idx in W.cases('hist', limit):
                    yield 'hist', idx, None
                return
            if W.is_lead():
                for i, pair in enumerate(DIRECTED):
                    yield 'directed', i, pair
            for idx in W.cases('hist', limit):
                yield 'hist', idx, None

        for stream, idx, preset in history_cases():
            rng = W.rng(stream, idx)
            if preset is None and rng.random() < .25:
                # ---- concurrent imports inside one run -------------------------------------------------
                nh, nu = rng.choice((1, 2, 4)), rng.choice((1, 2, 4))
                hooked = f'hk{W.k}_{idx}'
                unhooked = f'un{W.k}_{idx}'
                names = []
                for pkg, n in ((hooked, nh), (unhooked, nu)):
                    os.makedirs(os.path.join(src_dir, pkg))
                    open(os.path.join(src_dir, pkg, '__init__.py'), 'w').close()
                    for j in range(n):
                        with open(os.path.join(src_dir, pkg, f'mod{j}.py'), 'w') as f:
                            f.write(MOD_V1)
                        names.append(f'{pkg}.mod{j}')
                rng.shuffle(names)
                delay = rng.choice((0, 0.0005, 0.002))
                code = THREAD_RUNNER.format(repo=REPO, src=src_dir, hooked=hooked, names=names, delay=delay)
                try:
                    p = subprocess.run([sys.executable, '-c', code], env=env, capture_output=True, text=True, timeout=180)
                except subprocess.TimeoutExpired:
                    W.count('thread_runs_timed_out')
                    continue
                W.count('thread_runs')
                W.count('interpreter_runs')
                W.evaluate(('threads', nh, nu, delay))
                res = None
                for line in p.stdout.splitlines():
                    if line.startswith('@@'):
                        res = json.loads(line[2:])
                wit = dict(hooked_modules=nh, unhooked_modules=nu, delay=delay, order=names)
                if res is None:
                    W.violation('thread-run-crashed', p.stderr[-400:], 'hist', idx, wit)
                    continue
                if res['errors']:
                    W.violation('concurrent-import-raised', str(res['errors'][:2]), 'hist', idx, wit)
                want_h, want_u = cold('default', 1), cold('off', 1)
                for n_, r_ in res['results'].items():
                    want = want_h if n_.startswith('hk') else want_u
                    if r_ != want:
                        W.violation('concurrent-import-wrong-behaviour:' + ('hooked' if n_.startswith('hk') else 'unhooked'),
                                    f'{n_} behaves {r_} instead of {want}', 'hist', idx, wit)
                        break
                for pkg, should in ((hooked, True), (unhooked, False)):
                    base = os.path.join(pyc_dir, os.path.join(src_dir, pkg).lstrip(os.sep))
                    for fn in (sorted(os.listdir(base)) if os.path.isdir(base) else ()):
                        if not fn.endswith('.pyc') or fn.startswith('__init__'):
                            continue
                        W.count('pyc_files_decoded')
                        marked = 'beartype' in fn
                        co = marshal.loads(open(os.path.join(base, fn), 'rb').read()[16:])
                        transformed = any(n in code_names(co) for n in INJECTED)
                        if marked != should or transformed != should:
                            W.violation('patch-window-race:' + ('unhooked-module-cached-as-hooked' if not should else 'hooked-module-cached-as-unhooked'),
                                        f'{pkg}/{fn}: marked={marked} transformed={transformed} but the package is '
                                        f'{"hooked" if should else "not hooked"} (delay {delay}s inside get_code)', 'hist', idx, dict(wit, file=fn))
                            break
                shutil.rmtree(os.path.join(src_dir, hooked), ignore_errors=True)
                shutil.rmtree(os.path.join(src_dir, unhooked), ignore_errors=True)
                continue

            # ---- history of runs ---------------------------------------------------------------------------
            n = rng.choice((2, 2, 3, 3, 4, 5))
            named = [c for c in CONFIGS if not (c.startswith('p') and '-f' in c)]
            product = [c for c in CONFIGS if c.startswith('p') and '-f' in c]
            confs = [rng.choice(named if rng.random() < .5 else product) for _ in range(n)]
            for i in range(1, n):
                # a third of the time the next run uses another configuration of the same AST shape: those two share a
                # cache file by design, so whatever else distinguishes them must not have shaped the bytecode
                if rng.random() < .33:
                    same = [c for c in CONFIGS if AST_SHAPE[c] == AST_SHAPE[confs[i - 1]] and c != confs[i - 1] and c != 'off']
                    if rng.random() < .6 and any(c in named for c in same):
                        same = [c for c in same if c in named]
                    if same:
                        confs[i] = rng.choice(same)
                        continue
                # most of the time the next run differs from the previous one in exactly one option
                if confs[i - 1].startswith('p') and '-f' in confs[i - 1] and rng.random() < .7:
                    parts = confs[i - 1].split('-')
                    j = rng.choice((0, 1, 2, 3, 3))
                    alts = [('p0', 'p1'), ('fF5', 'fL4', 'fL25'), ('tF5', 'tL4', 'tL25'), ('x0', 'x557', 'xO0', 'xtow', 'xwarn', 'xover')][j]
                    parts[j] = rng.choice([a for a in alts if a != parts[j]])
                    confs[i] = '-'.join(parts)
            edits = [rng.random() < .25 for _ in range(n)]
            if preset is not None:
                confs, n = list(preset), len(preset)
                edits = [False] * n
                W.count('directed_histories')
            version = 1
            pkg = new_pkg(version)
            hist = []
            W.evaluate(tuple(confs) + tuple(edits) if len(set(confs)) > 1 else None)
            if len(W.samples) < 3:
                W.sample(dict(configurations=confs, edit_before_run=edits))
            for step, (cn, ed) in enumerate(zip(confs, edits)):
                if ed and step > 0 and version < 3:
                    version += 1
                    write_version(pkg, version)
                opt_run = rng.random() < .2
                if opt_run:
                    W.count('history_runs_under_python_O')
                got = run(pkg, cn, optimize=opt_run)
                want = cold(cn, version, opt_run)
                hist.append((cn + (' (python -O)' if opt_run else ''), version))
                W.count('history_runs')
                wit = dict(history=hist, step=step)
                if got is None or want is None:
                    W.count('runs_timed_out')
                    break
                if got != want:
                    # mechanism: which earlier configuration wrote the cache that was reused
                    prev_shapes = {AST_SHAPE[c.split(' (')[0]] for c, v in hist[:-1] if v == version and c.split(' (')[0] != 'off'}
                    if cn != 'off' and prev_shapes and AST_SHAPE[cn] not in prev_shapes:
                        key = 'marker-ignores-conf'
                    elif cn == 'off' or all(c.split(' (')[0] == 'off' for c, v in hist[:-1]):
                        key = 'hooked-unhooked-cache-mixed'
                    else:
                        key = 'stale-or-wrong-cache'
                    W.violation(key, f'run {step} under {cn!r} (source v{version}) behaves {got} but the same configuration on an empty cache '
                                     f'behaves {want}; earlier runs: {hist[:-1]}', stream, idx, wit)
                    break
                for fn, marked, transformed in scan_pycs(pyc_dir, src_dir, pkg):
                    W.count('pyc_files_decoded')
                    if transformed is not None and marked != transformed:
                        W.violation('pyc-marker-mismatch', f'{fn}: marked={marked} but contains the transformation={transformed}', stream, idx, wit)
                        break
            shutil.rmtree(os.path.join(src_dir, pkg), ignore_errors=True)
            shutil.rmtree(os.path.join(pyc_dir, os.path.join(src_dir, pkg).lstrip(os.sep)), ignore_errors=True)
    finally:
        shutil.rmtree(root, ignore_errors=True)
        # nothing may have been written below /repo
        stray = []
        for d, _, fs in os.walk(os.path.join(REPO, 'beartype')):
            stray += [os.path.join(d, f) for f in fs if f.endswith('.pyc')]
        if stray:
            for f in stray:
                try:
                    os.remove(f)
                except OSError:
                    pass
            W.count('stray_pyc_removed_from_repo', len(stray))

    # (an ordinary quick run makes ~850 interpreter runs; on a machine loaded 3x over its cores it made 144 - the
    # minimum only has to tell a working monitor from a detached one)
    W.need('interpreter_runs', 60)
    W.need('history_runs', 30)
    W.need('thread_runs', 3)
    W.need('pyc_files_decoded', 40)
    W.need('cold_reference_runs', 5)
    W.finish()


guarded(main)

#!/usr/bin/env python3
"""Driver of the runtime-monitoring checks for beartype (see DESIGN.md).

    verif.py check C07 [--tier quick|thorough] [--seed N] [--replay FILE]
    verif.py list

Fans the property's workload (workloads/cNN_*.py) out over worker
subprocesses run under /venv/bin/python against /repo's *current working
tree*, aggregates what the monitors observed, classifies violations against
known_findings.json, writes evidence/<id>.json and sets the exit code:

    0  held on everything observed (listed known findings are printed)
    1  violation not listed as a known finding  (VIOLATION line printed)
    2  inconclusive: a deciding monitor was never reached / watchdog fired
"""
from __future__ import annotations

import argparse
import glob
import json
import os
import subprocess
import sys
import time
from concurrent.futures import ThreadPoolExecutor

HERE = os.path.dirname(os.path.abspath(__file__))
PY = os.environ.get('VERIF_PYTHON', '/venv/bin/python')

# Per-property run plan: (workers, per-worker time budget s, watchdog s) per tier.
# Case *counts* are decided by the workloads (they read tier and budget).
PLAN_DEFAULT = {
    'quick':    dict(workers=16, budget=35, watchdog=240),
    'thorough': dict(workers=16, budget=600, watchdog=1500),
}
PLAN = {
    # property-specific overrides go here
    'C16': {'quick': dict(workers=16, budget=50, watchdog=400),
            'thorough': dict(workers=16, budget=900, watchdog=2400)},
    'C15': {'quick': dict(workers=16, budget=40, watchdog=300),
            'thorough': dict(workers=16, budget=900, watchdog=2400)},
    # C14 forks per history; this VM serialises fork() globally (~130/s), so more workers do not help
    'C14': {'quick': dict(workers=6, budget=45, watchdog=300),
            'thorough': dict(workers=6, budget=900, watchdog=2400)},
    'C05': {'quick': dict(workers=16, budget=40, watchdog=300),
            'thorough': dict(workers=16, budget=600, watchdog=1800)},
}


def workload_path(prop: str) -> str:
    hits = sorted(glob.glob(os.path.join(HERE, 'workloads', prop.lower() + '_*.py')))
    if not hits:
        sys.exit(f'no workload for {prop}')
    return hits[0]


def load_findings() -> list:
    path = os.path.join(HERE, 'known_findings.json')
    if not os.path.exists(path):
        return []
    with open(path) as f:
        return json.load(f).get('findings', [])


def run_worker(prop, wl, seed, tier, k, n, budget, watchdog, replay_case):
    cmd = [PY, '-X', 'faulthandler', '-B', wl,
           '--seed', str(seed), '--tier', tier, '--worker', str(k),
           '--nworkers', str(n), '--budget', str(budget)]
    if replay_case is not None:
        cmd += ['--replay-case', json.dumps(replay_case)]
    env = dict(os.environ)
    env['PYTHONHASHSEED'] = '0'
    env['PYTHONDONTWRITEBYTECODE'] = '1'
    env['BEARTYPE_VERIF'] = '1'
    env.pop('BEARTYPE_IS_COLOR', None)
    env['PYTHONPATH'] = HERE
    t0 = time.time()
    try:
        p = subprocess.run(cmd, stdout=subprocess.PIPE, stderr=subprocess.PIPE,
                           timeout=watchdog, env=env, cwd=HERE, text=True,
                           errors='replace')
        out, err, rc, timed_out = p.stdout, p.stderr, p.returncode, False
    except subprocess.TimeoutExpired as e:
        out = e.stdout.decode(errors='replace') if isinstance(e.stdout, bytes) else (e.stdout or '')
        err = e.stderr.decode(errors='replace') if isinstance(e.stderr, bytes) else (e.stderr or '')
        rc, timed_out = None, True
    result, viols = None, []
    for line in out.splitlines():
        if line.startswith('@@RESULT '):
            try:
                result = json.loads(line[9:])
            except ValueError:
                pass
        elif line.startswith('@@VIOL '):
            try:
                viols.append(json.loads(line[7:]))
            except ValueError:
                pass
    return dict(k=k, rc=rc, timed_out=timed_out, result=result, viols=viols,
                err=err[-4000:], wall=time.time() - t0)


def check(prop: str, tier: str, seed: int, replay: str | None) -> int:
    t0 = time.time()
    wl = workload_path(prop)
    plan = dict(PLAN_DEFAULT[tier])
    plan.update(PLAN.get(prop, {}).get(tier, {}))
    if os.environ.get('VERIF_BUDGET'):
        plan['budget'] = float(os.environ['VERIF_BUDGET'])
    if os.environ.get('VERIF_WORKERS'):
        plan['workers'] = int(os.environ['VERIF_WORKERS'])
    replay_case = None
    if replay:
        with open(replay) as f:
            rp = json.load(f)
        seed, tier = rp.get('seed', seed), rp.get('tier', tier)
        replay_case = rp.get('case')
        plan['workers'] = 1
    n = plan['workers']
    with ThreadPoolExecutor(max_workers=n) as ex:
        futs = [ex.submit(run_worker, prop, wl, seed, tier, k, n,
                          plan['budget'], plan['watchdog'], replay_case)
                for k in range(n)]
        runs = [f.result() for f in futs]

    # ---- aggregate -------------------------------------------------------
    counters: dict = {}
    sets: dict = {}
    distinct: set = set()
    samples: list = []
    require: dict = {}
    rule = ''
    assumptions: list = []
    evaluations = 0
    violations: list = []
    broken: list = []
    seen_v = set()
    for r in runs:
        res = r['result']
        for v in r['viols']:
            sig = json.dumps(v, sort_keys=True)
            if sig not in seen_v:
                seen_v.add(sig)
                violations.append(v)
        if res is None:
            why = 'watchdog' if r['timed_out'] else f'rc={r["rc"]}'
            broken.append(f'worker {r["k"]}: no result ({why}); stderr tail: '
                          + r['err'][-1500:])
            continue
        evaluations += res.get('evaluations', 0)
        distinct.update(res.get('distinct', []))
        for k_, v_ in res.get('counters', {}).items():
            counters[k_] = counters.get(k_, 0) + v_
        for k_, v_ in res.get('sets', {}).items():
            sets.setdefault(k_, set()).update(v_)
        for s in res.get('samples', []):
            if len(samples) < 12:
                samples.append(s)
        for k_, v_ in res.get('require', {}).items():
            require[k_] = max(require.get(k_, 0), v_)
        rule = res.get('rule') or rule
        for a in res.get('assumptions', []):
            if a not in assumptions:
                assumptions.append(a)

    # ---- classify violations --------------------------------------------
    findings = [f for f in load_findings() if f.get('property') == prop]
    open_keys = {f['key']: f for f in findings if f.get('status') == 'open'}
    known_hits: dict = {}
    unknown: list = []
    for v in violations:
        key = v.get('key')
        if key in open_keys:
            known_hits.setdefault(key, []).append(v)
        elif isinstance(key, str) and '+' in key and all(p in open_keys for p in key.split('+')):
            # a witness that needs several listed mechanisms at once (C06's
            # explanatory models): known only if every part is listed
            for p in key.split('+'):
                known_hits.setdefault(p, []).append(v)
        else:
            unknown.append(v)

    for key, vs in sorted(known_hits.items()):
        print(f'KNOWN-FINDING: property={prop} key={key} hits={len(vs)} '
              f'{open_keys[key].get("what", "")}')

    rc = 0
    replay_paths = []
    if unknown:
        rc = 1
        rdir = os.path.join(HERE, 'replays', prop) if not os.environ.get('VERIF_NO_EVIDENCE') else os.path.join('/tmp', 'vreplays', prop)
        os.makedirs(rdir, exist_ok=True)
        by_key: dict = {}
        for v in unknown:
            by_key.setdefault(v.get('key'), []).append(v)
        for i, (key, vs) in enumerate(sorted(by_key.items(), key=lambda kv: str(kv[0]))):
            v = vs[0]
            path = os.path.join(rdir, f'{prop}_{seed}_{tier}_{i}.json')
            with open(path, 'w') as f:
                json.dump(dict(property=prop, seed=seed, tier=tier,
                               case=v.get('case'), key=key, what=v.get('what'),
                               witness=v.get('witness'), same_key_hits=len(vs)),
                          f, indent=1, default=str)
            replay_paths.append(path)
            print(f'VIOLATION property={prop} replay={path}')
            print(f'  key={key} hits={len(vs)} what={str(v.get("what"))[:600]}')

    # ---- reach -----------------------------------------------------------
    inconclusive = []
    if broken:
        inconclusive += broken
    if replay_case is None:
        for name, minimum in sorted(require.items()):
            # '|name|' = number of distinct members of the observed set `name`, united over the workers
            have = len(sets.get(name[1:-1], ())) if name.startswith('|') and name.endswith('|') else counters.get(name, 0)
            if have < minimum:
                inconclusive.append(f'monitor counter {name}={have} < required {minimum}')
    if rc == 0 and inconclusive:
        rc = 2
        for why in inconclusive:
            print(f'INCONCLUSIVE property={prop} reason={why[:1200]}')

    # ---- evidence --------------------------------------------------------
    wall = time.time() - t0
    coverage = dict(
        evaluations=int(evaluations),
        distinct_nontrivial=len(distinct),
        rule=rule,
        samples=samples[:12],
        exhaustive=False,
        counters=dict(sorted(counters.items())),
        observed_sets={k_: sorted(map(str, v_))[:80] for k_, v_ in sorted(sets.items())},
        observed_set_sizes={k_: len(v_) for k_, v_ in sorted(sets.items())},
        workers=n,
        worker_wall_s=[round(r['wall'], 1) for r in runs],
        known_findings_observed={k_: len(v_) for k_, v_ in sorted(known_hits.items())},
        unlisted_violation_keys=sorted({str(v.get('key')) for v in unknown}),
        verdict={0: 'held-on-observed', 1: 'violated', 2: 'inconclusive'}[rc],
        inconclusive_reasons=[w[:300] for w in inconclusive],
        required_reach=require,
    )
    ev = dict(property_id=prop, tier=tier, seed=int(seed), level='exploration',
              coverage=coverage, assumptions=assumptions,
              wall_s=round(wall, 2), violations=len(unknown))
    if replay_case is None and not os.environ.get('VERIF_NO_EVIDENCE'):
        os.makedirs(os.path.join(HERE, 'evidence'), exist_ok=True)
        with open(os.path.join(HERE, 'evidence', f'{prop}.json'), 'w') as f:
            json.dump(ev, f, indent=1, default=str)
            f.write('\n')
    print(f'{prop} tier={tier} seed={seed} evaluations={evaluations} '
          f'distinct={len(distinct)} known={sum(map(len, known_hits.values()))} '
          f'unlisted={len(unknown)} verdict={coverage["verdict"]} wall={wall:.1f}s')
    return rc


def main() -> int:
    ap = argparse.ArgumentParser()
    sub = ap.add_subparsers(dest='cmd', required=True)
    c = sub.add_parser('check')
    c.add_argument('prop')
    c.add_argument('--tier', default=os.environ.get('VERIF_TIER', 'quick'),
                   choices=['quick', 'thorough'])
    c.add_argument('--seed', type=int, default=int(os.environ.get('VERIF_SEED', '0')))
    c.add_argument('--replay')
    sub.add_parser('list')
    a = ap.parse_args()
    if a.cmd == 'list':
        for p in sorted(glob.glob(os.path.join(HERE, 'workloads', 'c[0-9][0-9]_*.py'))):
            print(os.path.basename(p)[:3].upper(), p)
        return 0
    return check(a.prop.upper(), a.tier, a.seed, a.replay)


if __name__ == '__main__':
    sys.exit(main())
